// C19 - case engine: runs one generated scenario against the real multi transport and judges the recording.
package c19

import (
	"fmt"
	"hash/fnv"
	"math/rand"
	"runtime"
	"sort"
	"strings"
	"sync"
	"sync/atomic"
	"time"

	"github.com/anishathalye/porcupine"
	"github.com/aptpod/iscp-go/log"
	"github.com/aptpod/iscp-go/transport"
	"github.com/aptpod/iscp-go/transport/multi"

	"verif/harness/vrun"
)

const (
	modeEvent    = "event"
	modeNIC      = "nic-event"
	modeScripted = "poll-scripted"
	modeRR       = "poll-roundrobin"
	modeLastUsed = "poll-lastused"
)

type scriptEntry struct {
	ID    string `json:"id"`            // id the scheduler emits
	Src   string `json:"src,omitempty"` // NIC name announced (nic-event mode)
	Class string `json:"class"`         // member | empty | unknown
	Wait  bool   `json:"wait"`          // driver waits until the selection is observed before going on
	Pause int    `json:"pause"`         // before the emission: 0 none, <0 that many yields, >0 microseconds of sleep
}

type spec struct {
	Flavor      string        `json:"flavor"`
	Mode        string        `json:"mode"`
	Members     []string      `json:"members"`
	Closer      []bool        `json:"closer"`
	CloseErr    []bool        `json:"close_err"`
	Unrel       []bool        `json:"unreliable"`
	Yields      []int         `json:"write_yields"`
	Initial     string        `json:"initial"`
	InitClass   string        `json:"initial_class"`
	Script      []scriptEntry `json:"script,omitempty"`
	RRList      []string      `json:"rr_list,omitempty"`
	Budget      int           `json:"poll_budget,omitempty"`
	ChanCap     int           `json:"chan_cap"`
	IntervalUs  int           `json:"interval_us,omitempty"`
	Writers     [][]int       `json:"writers"` // per writer: pause before each write
	Feeds       [][]int       `json:"feeds"`   // per member: pause before each message fed to its read queue
	Consumers   int           `json:"consumers"`
	CloseStatus string        `json:"close_status"` // "" = Close()
	Probe       string        `json:"probe"`        // call used to probe after a non-member id
}

func pause(p int) {
	switch {
	case p < 0:
		for i := 0; i < -p; i++ {
			runtime.Gosched()
		}
	case p > 0:
		time.Sleep(time.Duration(p) * time.Microsecond)
	}
}

func genPause(r *rand.Rand, scale int) int {
	switch r.Intn(4) {
	case 0:
		return 0
	case 1:
		return -(1 + r.Intn(4))
	default:
		return (5 + r.Intn(150)) * scale
	}
}

var namePools = [][]string{
	{"m0", "m1", "m2", "m3", "m4"},
	{"wifi", "lte", "eth0", "sat", "5g"},
	{"a", "A", "b", "B", "c"},
	{"0", "1", "2", "3", "4"},
	{"3f2a9c10-0001", "3f2a9c10-0002", "3f2a9c10-0003", "3f2a9c10-0004", "3f2a9c10-0005"},
}

func unknownID(r *rand.Rand, members []string) string {
	in := map[string]bool{}
	for _, m := range members {
		in[m] = true
	}
	cands := []string{"ghost", strings.ToUpper(members[0]), members[r.Intn(len(members))] + " ", " ", "nil", members[0] + members[0], "transport1"}
	for tries := 0; tries < 20; tries++ {
		c := cands[r.Intn(len(cands))]
		if c != "" && !in[c] {
			return c
		}
	}
	return "ghost-x"
}

var probeCalls = []string{"Write", "AsUnreliable", "NegotiationParams"}

// genSpec draws one scenario. flavor "routing": only member ids anywhere. flavor "nonmember": the initial id or
// some scheduler output is the empty id or an id outside the member set.
func genSpec(r *rand.Rand, flavor string) *spec {
	sp := &spec{Flavor: flavor}
	nw := []int{1, 2, 2, 2, 3, 3, 3, 4, 4, 5}
	n := nw[r.Intn(len(nw))]
	pool := namePools[r.Intn(len(namePools))]
	perm := r.Perm(len(pool))
	for i := 0; i < n; i++ {
		sp.Members = append(sp.Members, pool[perm[i]])
		sp.Closer = append(sp.Closer, r.Intn(2) == 0)
		sp.CloseErr = append(sp.CloseErr, r.Intn(5) == 0)
		sp.Unrel = append(sp.Unrel, r.Intn(3) == 0)
		sp.Yields = append(sp.Yields, []int{0, 0, 1, 2, 4}[r.Intn(5)])
	}
	sp.Initial = sp.Members[r.Intn(n)]
	sp.InitClass = "member"
	sp.Probe = probeCalls[r.Intn(3)]
	sp.ChanCap = r.Intn(3)
	sp.Consumers = []int{1, 1, 1, 2, 3}[r.Intn(5)]
	if r.Intn(2) == 0 {
		sp.CloseStatus = []string{string(transport.CloseStatusNormal), string(transport.CloseStatusAbnormal), string(transport.CloseStatusGoingAway), string(transport.CloseStatusInternalError)}[r.Intn(4)]
	}

	kind := -1
	switch flavor {
	case "routing":
		sp.Mode = []string{modeEvent, modeEvent, modeEvent, modeEvent, modeNIC, modeNIC, modeScripted, modeScripted, modeRR, modeRR}[r.Intn(10)]
	default:
		kind = []int{0, 0, 0, 0, 1, 1, 1, 2, 2, 2, 2, 2, 2, 2, 2, 3, 3, 4, 4, 4}[r.Intn(20)]
		switch kind {
		case 0, 1:
			sp.Mode = []string{modeEvent, modeNIC, modeScripted, modeRR}[r.Intn(4)]
			if kind == 0 {
				sp.Initial, sp.InitClass = "", "empty"
			} else {
				sp.Initial, sp.InitClass = unknownID(r, sp.Members), "unknown"
			}
		case 2:
			sp.Mode = []string{modeEvent, modeEvent, modeNIC, modeScripted}[r.Intn(4)]
		case 3:
			sp.Mode = modeRR
		case 4:
			sp.Mode = modeLastUsed
		}
	}

	scale := 1
	switch sp.Mode {
	case modeScripted:
		sp.IntervalUs = 100 + r.Intn(400)
		scale = 2
	case modeRR, modeLastUsed:
		sp.IntervalUs = 300 + r.Intn(1200)
		sp.Budget = 4 + r.Intn(9)
		scale = 4
	}

	// selections
	switch sp.Mode {
	case modeEvent, modeNIC, modeScripted:
		k := 1 + r.Intn(9)
		prev := sp.Initial
		for i := 0; i < k; i++ {
			id := sp.Members[r.Intn(n)]
			if id == prev && r.Intn(10) < 7 {
				id = sp.Members[r.Intn(n)]
			}
			prev = id
			sp.Script = append(sp.Script, scriptEntry{ID: id, Class: "member", Wait: r.Intn(10) < 6, Pause: genPause(r, 1)})
		}
		if kind == 2 {
			bad := 1 + r.Intn(3)
			for b := 0; b < bad; b++ {
				e := scriptEntry{Class: "empty", Wait: false, Pause: genPause(r, 1)}
				if r.Intn(2) == 0 {
					e.Class, e.ID = "unknown", unknownID(r, sp.Members)
				}
				pos := r.Intn(len(sp.Script)) // never last: a member id follows every non-member id
				sp.Script = append(sp.Script[:pos], append([]scriptEntry{e}, sp.Script[pos:]...)...)
			}
		}
		if sp.Mode == modeNIC {
			for i := range sp.Script {
				e := &sp.Script[i]
				switch e.Class {
				case "member":
					e.Src = "nic:" + e.ID
				case "empty":
					e.Src = "nic-not-in-table"
				default:
					e.Src = "nic->" + e.ID
				}
			}
		}
	case modeRR:
		p := r.Perm(n)
		for _, i := range p {
			sp.RRList = append(sp.RRList, sp.Members[i])
		}
		if r.Intn(3) == 0 && n > 1 {
			sp.RRList = append(sp.RRList, sp.Members[r.Intn(n)])
		}
		if kind == 3 {
			bad := ""
			if r.Intn(2) == 0 {
				bad = unknownID(r, sp.Members)
			}
			pos := r.Intn(len(sp.RRList) + 1)
			sp.RRList = append(sp.RRList[:pos], append([]string{bad}, sp.RRList[pos:]...)...)
			if r.Intn(6) == 0 {
				sp.RRList = nil // NewRoundRobinPoller(nil) answers "" forever
			}
		}
	}

	// writers
	w := 1 + r.Intn(8)
	maxPer := 36 / w
	if maxPer > 6 {
		maxPer = 6
	}
	for i := 0; i < w; i++ {
		k := 1 + r.Intn(maxPer)
		ps := make([]int, k)
		for j := range ps {
			ps[j] = genPause(r, scale)
		}
		sp.Writers = append(sp.Writers, ps)
	}
	// member reads
	for i := 0; i < n; i++ {
		k := r.Intn(6)
		ps := make([]int, k)
		for j := range ps {
			ps[j] = genPause(r, scale)
		}
		sp.Feeds = append(sp.Feeds, ps)
	}
	return sp
}

func (sp *spec) sig() string {
	h := fnv.New64a()
	fmt.Fprintf(h, "%v|%v|%v|%v|%v|%v|%v", sp.Members, sp.Initial, sp.Script, sp.RRList, len(sp.Writers), sp.Feeds, sp.Closer)
	nw := 0
	for _, w := range sp.Writers {
		nw += len(w)
	}
	return fmt.Sprintf("%s/%s/n%d/w%dx%d/c%d/%x", sp.Flavor, sp.Mode, len(sp.Members), len(sp.Writers), nw, sp.Consumers, h.Sum64()&0xffffffff)
}

func (sp *spec) origin() string {
	switch sp.Mode {
	case modeEvent, modeNIC:
		return "event-scheduler"
	case modeLastUsed:
		return "polling-lastused"
	default:
		return "polling-scheduler"
	}
}

// ---------------------------------------------------------------------------------------------------------

type wop struct {
	Client int    `json:"client"`
	Call   int64  `json:"call"`
	Ret    int64  `json:"ret"`
	Msg    string `json:"msg"`
	Err    string `json:"err,omitempty"`
	Panic  bool   `json:"panicked,omitempty"`
}

type rrec struct {
	T   int64
	Msg string
}

type env struct {
	sp      *spec
	clk     *lclock
	members []*member
	byID    map[string]*member
	elog    *emitLog
	pbox    *panicBox
	obs     *observer
	mt      *multi.Transport
	abort   chan struct{}

	wmu    sync.Mutex
	writes []wop

	rmu         sync.Mutex
	consumerIDs []string // goroutine ids of the Read callers (to find them in a dump)
	reads       []rrec
	sentinels   int
	readErrs    []string

	verbose     bool // attach the scenario and a history sample to a held result (first cases only: evidence size)
	writersDone atomic.Bool
	probes      atomic.Int64
	unrelCalls  atomic.Int64
}

func (e *env) aborted() bool {
	select {
	case <-e.abort:
		return true
	default:
		return false
	}
}

func (e *env) doWrite(client int, msg string) (panicked bool) {
	var err error
	call := e.clk.tick()
	panicked = e.pbox.guard("Write", e.clk, func() { err = e.mt.Write([]byte(msg)) })
	ret := e.clk.tick()
	o := wop{Client: client, Call: call, Ret: ret, Msg: msg, Panic: panicked}
	if err != nil {
		o.Err = err.Error()
	}
	e.wmu.Lock()
	e.writes = append(e.writes, o)
	e.wmu.Unlock()
	return panicked
}

func (e *env) probe(call string, client int, tag string) bool {
	e.probes.Add(1)
	switch call {
	case "Write":
		return e.doWrite(client, tag)
	case "AsUnreliable":
		return e.pbox.guard("AsUnreliable", e.clk, func() { e.mt.AsUnreliable() })
	default:
		return e.pbox.guard("NegotiationParams", e.clk, func() { e.mt.NegotiationParams() })
	}
}

// waitConfirm waits (pacing only) until the observer has seen id in an observation begun after tick `after`.
func (e *env) waitConfirm(id string, after int64, d time.Duration) bool {
	deadline := time.Now().Add(d)
	for i := 0; ; i++ {
		o, n := e.obs.last()
		if n > 0 && o.V == id && o.T0 > after {
			return true
		}
		if e.pbox.flag.Load() || e.aborted() {
			return false
		}
		if i%32 == 31 {
			if time.Now().After(deadline) {
				return false
			}
			time.Sleep(20 * time.Microsecond)
		} else {
			runtime.Gosched()
		}
	}
}

// goid returns the id of the calling goroutine as printed in goroutine dumps.
func goid() string {
	buf := make([]byte, 64)
	f := strings.Fields(string(buf[:runtime.Stack(buf, false)]))
	if len(f) > 1 {
		return f[1]
	}
	return "?"
}

func goroutineState(header string) string {
	i := strings.Index(header, "[")
	j := strings.LastIndex(header, "]")
	if i < 0 || j < i {
		return ""
	}
	st := header[i+1 : j]
	if k := strings.Index(st, ","); k >= 0 {
		st = st[:k]
	}
	return strings.TrimSpace(st)
}

// pipelineIdle reports whether every goroutine the multi transport package (and its channel helpers) started is
// blocked on a channel or lock, i.e. nothing is in flight between the scheduler and the transport.
func pipelineIdle() (bool, string) {
	n := 0
	for _, g := range vrun.ParseStacks(vrun.AllStacks()) {
		if !g.LibraryOwned() {
			continue
		}
		if !strings.Contains(g.CreatedBy, "/transport/multi.") && !strings.Contains(g.CreatedBy, "/internal/ch.") {
			continue
		}
		n++
		switch st := goroutineState(g.Header); {
		case st == "chan receive", st == "chan send", st == "select", strings.HasPrefix(st, "sync."), st == "semacquire":
		default:
			return false, g.Header + " in " + g.InnermostLib()
		}
	}
	return n > 0, fmt.Sprintf("%d goroutines started by transport/multi and internal/ch, all blocked on channels", n)
}

type driverOutcome struct {
	kind   string // ok | panic | aborted | never-applied | inconclusive
	note   string
	detail any
}

// decideNeverApplied is reached when a selection was not observed for seconds. It never decides by time: only a
// goroutine dump showing that nothing is in flight any more, followed by an observation that still shows another
// member, is decisive.
func (e *env) decideNeverApplied(id string, after int64) driverOutcome {
	for try := 0; try < 80; try++ {
		if e.pbox.flag.Load() {
			return driverOutcome{kind: "panic"}
		}
		if e.aborted() {
			return driverOutcome{kind: "aborted"}
		}
		if o, n := e.obs.last(); n > 0 && o.V == id && o.T0 > after {
			return driverOutcome{kind: "ok", note: "late"}
		}
		if e.writersDone.Load() {
			idle, detail := pipelineIdle()
			if idle {
				mark := e.clk.tick()
				for i := 0; i < 2000; i++ {
					if o, _ := e.obs.last(); o.T0 > mark {
						break
					}
					time.Sleep(100 * time.Microsecond)
				}
				o, _ := e.obs.last()
				if o.T0 > mark && o.V != id {
					// the decisive event is a Write: issued now, with nothing in flight, it must land on the selection.
					msg := fmt.Sprintf("decide-%d", try)
					if e.doWrite(len(e.sp.Writers), msg) {
						return driverOutcome{kind: "panic"}
					}
					on := ""
					for _, m := range e.members {
						ws, _, _, _ := m.snapshot()
						for _, w := range ws {
							if w.Msg == msg {
								on = string(m.id)
							}
						}
					}
					if on == id {
						return driverOutcome{kind: "inconclusive", note: fmt.Sprintf("selection %s took effect for Write but NegotiationParams().TransportID still shows %q (the observation the oracle relies on is unusable)", id, o.V)}
					}
					return driverOutcome{kind: "never-applied", detail: map[string]any{"selected": id, "emitted_at": after, "still_observed": o, "goroutines": detail, "write_issued_afterwards": msg, "landed_on": on}}
				}
			}
		}
		if try < 20 {
			time.Sleep(15 * time.Millisecond)
		} else {
			time.Sleep(100 * time.Millisecond)
		}
	}
	return driverOutcome{kind: "inconclusive", note: "selection " + id + " not observed and the goroutine dumps were not decisive"}
}

// confirmWait only paces the driver. When it elapses nothing is decided by it: decideNeverApplied looks for decisive
// evidence (nothing in flight + a fresh Write landing elsewhere) and otherwise keeps waiting.
const confirmWait = 150 * time.Millisecond

func (e *env) confirmOrDecide(id string, after int64) driverOutcome {
	if e.waitConfirm(id, after, confirmWait) {
		return driverOutcome{kind: "ok"}
	}
	if e.pbox.flag.Load() {
		return driverOutcome{kind: "panic"}
	}
	if e.aborted() {
		return driverOutcome{kind: "aborted"}
	}
	return e.decideNeverApplied(id, after)
}

// execCase runs the scenario. abort is closed by the caller's watchdog.
func execCase(sp *spec, abort chan struct{}, verbose bool) vrun.Result {
	clk := &lclock{}
	e := &env{sp: sp, verbose: verbose, clk: clk, byID: map[string]*member{}, pbox: &panicBox{}, obs: &observer{}, abort: abort}
	n := len(sp.Members)
	tmap := multi.TransportMap{}
	isMember := map[string]bool{}
	for i, id := range sp.Members {
		m := newMember(id, clk, "grp", n, i)
		m.yields = sp.Yields[i]
		if sp.Unrel[i] {
			m.unrel = &unrelT{owner: m.id}
		}
		if sp.CloseErr[i] {
			m.closeErr = fmt.Errorf("close of %s failed", id)
		}
		e.members = append(e.members, m)
		e.byID[id] = m
		isMember[id] = true
		if sp.Closer[i] {
			tmap[m.id] = closerMember{m}
		} else {
			tmap[m.id] = m
		}
	}
	e.elog = &emitLog{members: isMember}

	cfg := multi.TransportConfig{TransportMap: tmap, InitialTransportID: transport.TransportID(sp.Initial), Logger: log.NewNop()}
	var evCh chan transport.TransportID
	var nicCh chan string
	var spoll *scriptedPoller
	var wpoll *wrapPoller
	switch sp.Mode {
	case modeEvent:
		evCh = make(chan transport.TransportID, sp.ChanCap)
		cfg.SchedulerMode = multi.SchedulerModeEvent
		cfg.EventScheduler = &multi.EventScheduler{Subscriber: &chanSubscriber{ch: evCh}}
	case modeNIC:
		nicCh = make(chan string, sp.ChanCap)
		table := map[string]transport.TransportID{}
		for _, id := range sp.Members {
			table["nic:"+id] = transport.TransportID(id)
		}
		for _, s := range sp.Script {
			if s.Class == "unknown" {
				table[s.Src] = transport.TransportID(s.ID)
			}
		}
		cfg.SchedulerMode = multi.SchedulerModeEvent
		cfg.EventScheduler = &multi.EventScheduler{Subscriber: &multi.NICEventSubscriber{NICManager: &nicListener{ch: nicCh}, NICTransportID: table}}
	case modeScripted:
		spoll = &scriptedPoller{clk: clk, log: e.elog}
		first := sp.Initial
		if sp.InitClass != "member" {
			first = sp.Members[0]
		}
		spoll.cur.Store(&first)
		cfg.SchedulerMode = multi.SchedulerModePolling
		cfg.PollingScheduler = &multi.PollingScheduler{Poller: spoll, Interval: time.Duration(sp.IntervalUs) * time.Microsecond}
	case modeRR:
		ids := make([]transport.TransportID, len(sp.RRList))
		for i, s := range sp.RRList {
			ids[i] = transport.TransportID(s)
		}
		wpoll = &wrapPoller{clk: clk, log: e.elog, inner: multi.NewRoundRobinPoller(ids), kind: "RoundRobinPoller", budget: int64(sp.Budget)}
		cfg.SchedulerMode = multi.SchedulerModePolling
		cfg.PollingScheduler = &multi.PollingScheduler{Poller: wpoll, Interval: time.Duration(sp.IntervalUs) * time.Microsecond}
	case modeLastUsed:
		wpoll = &wrapPoller{clk: clk, log: e.elog, inner: multi.NewLastReadPoller(), kind: "LastUsedPoller", budget: int64(sp.Budget)}
		cfg.SchedulerMode = multi.SchedulerModePolling
		cfg.PollingScheduler = &multi.PollingScheduler{Poller: wpoll, Interval: time.Duration(sp.IntervalUs) * time.Microsecond}
	}

	var mt *multi.Transport
	var nerr error
	if e.pbox.guard("NewTransport", clk, func() { mt, nerr = multi.NewTransport(cfg) }) {
		p := e.pbox.get()
		return vrun.Violation("NewTransport panicked", "panic:NewTransport:"+sp.InitClass+"-initial-id", map[string]any{"spec": sp, "panic": p})
	}
	if nerr != nil {
		if sp.InitClass == "member" {
			return vrun.Violation("a configuration whose initial id is a member was rejected", "valid-config-rejected:"+sp.Mode, map[string]any{"spec": sp, "err": nerr.Error()})
		}
		res := vrun.Hold(sp.sig()+"/rejected", true)
		if verbose {
			res.Desc = sp
		}
		res.Stat("nonmember_initial_id_rejected", 1)
		res.AddSet("nonmember_id_outcomes", "initial-"+sp.InitClass+":rejected")
		return res
	}
	e.mt = mt
	closeMT := func() {
		e.pbox.guard("Close", clk, func() { mt.Close() })
	}

	writerClient := len(sp.Writers)
	initState := sp.Initial
	if sp.InitClass != "member" {
		// accepted: the statement then demands that it is harmless.
		order := []string{sp.Probe}
		for _, c := range probeCalls {
			if c != sp.Probe {
				order = append(order, c)
			}
		}
		for i, c := range order {
			if e.probe(c, writerClient+2, fmt.Sprintf("probe-init-%d", i)) {
				closeMT()
				p := e.pbox.get()
				return vrun.Violation(fmt.Sprintf("NewTransport accepted the %s initial transport id %q (not a member) and the next %s panicked", sp.InitClass, sp.Initial, c),
					"panic-after-nonmember-id:initial-id:"+c,
					map[string]any{"spec": sp, "initial_id": sp.Initial, "id_class": sp.InitClass, "call": c, "panic": p.Val, "site": p.Site, "stack": p.Stack})
			}
		}
		initState = "?"
	}

	// ---- run phase
	var wg sync.WaitGroup // writers
	var og sync.WaitGroup // observer
	var fg sync.WaitGroup // feeders
	var cg sync.WaitGroup // consumers
	var stopObs atomic.Bool
	start := make(chan struct{})

	og.Add(1)
	go func() {
		defer og.Done()
		<-start
		for i := 0; !stopObs.Load() && !e.pbox.flag.Load(); i++ {
			var v string
			t0 := clk.tick()
			if e.pbox.guard("NegotiationParams", clk, func() { v = string(mt.NegotiationParams().TransportID) }) {
				return
			}
			t1 := clk.tick()
			e.obs.put(obsRec{T0: t0, T1: t1, V: v})
			if i%5 == 4 {
				e.unrelCalls.Add(1)
				if e.pbox.guard("AsUnreliable", clk, func() { mt.AsUnreliable() }) {
					return
				}
			}
			if i%16 == 15 {
				time.Sleep(10 * time.Microsecond)
			} else {
				runtime.Gosched()
			}
		}
	}()

	for wi, ps := range sp.Writers {
		wg.Add(1)
		go func(wi int, ps []int) {
			defer wg.Done()
			<-start
			for i, p := range ps {
				pause(p)
				if e.pbox.flag.Load() || e.aborted() {
					return
				}
				msg := fmt.Sprintf("w%d-%d%s", wi, i, strings.Repeat("x", (wi*3+i*5)%11))
				if e.doWrite(wi, msg) {
					return
				}
			}
		}(wi, ps)
	}

	for mi, ps := range sp.Feeds {
		fg.Add(1)
		go func(mi int, ps []int) {
			defer fg.Done()
			<-start
			for i, p := range ps {
				pause(p)
				e.members[mi].q <- []byte(fmt.Sprintf("r%d-%d%s", mi, i, strings.Repeat("y", (mi+i*3)%7)))
			}
		}(mi, ps)
	}

	for ci := 0; ci < sp.Consumers; ci++ {
		cg.Add(1)
		go func() {
			defer cg.Done()
			id := goid()
			e.rmu.Lock()
			e.consumerIDs = append(e.consumerIDs, id)
			e.rmu.Unlock()
			for {
				var b []byte
				var err error
				if e.pbox.guard("Read", clk, func() { b, err = mt.Read() }) {
					return
				}
				t := clk.tick()
				e.rmu.Lock()
				if err != nil {
					e.readErrs = append(e.readErrs, fmt.Sprintf("t=%d %v", t, err))
					e.rmu.Unlock()
					return
				}
				s := string(b)
				e.reads = append(e.reads, rrec{T: t, Msg: s})
				if strings.HasPrefix(s, "S:") {
					e.sentinels++
				}
				e.rmu.Unlock()
			}
		}()
	}

	close(start)
	wdone := make(chan struct{})
	go func() { wg.Wait(); e.writersDone.Store(true); close(wdone) }()

	// ---- driver (this goroutine)
	out := driverOutcome{kind: "ok"}
	spin := func(cond func() bool, d time.Duration) bool {
		deadline := time.Now().Add(d)
		for i := 0; !cond(); i++ {
			if e.pbox.flag.Load() || e.aborted() {
				return false
			}
			if i%32 == 31 {
				if time.Now().After(deadline) {
					return false
				}
				time.Sleep(20 * time.Microsecond)
			} else {
				runtime.Gosched()
			}
		}
		return true
	}
	lastValidAfter := int64(0)
	switch sp.Mode {
	case modeEvent, modeNIC, modeScripted:
	script:
		for si, s := range sp.Script {
			pause(s.Pause)
			if e.pbox.flag.Load() || e.aborted() {
				break
			}
			var call int64
			switch sp.Mode {
			case modeEvent:
				call = clk.tick()
				e.elog.add(call, s.ID, "event")
				select {
				case evCh <- transport.TransportID(s.ID):
				case <-abort:
					break script
				}
			case modeNIC:
				call = clk.tick()
				e.elog.add(call, s.ID, s.Src)
				select {
				case nicCh <- s.Src:
				case <-abort:
					break script
				}
			case modeScripted:
				call = clk.tick()
				v := s.ID
				spoll.cur.Store(&v)
				if !spin(func() bool { return spoll.seen.Load() == &v }, 10*time.Second) {
					if !e.pbox.flag.Load() && !e.aborted() {
						out = driverOutcome{kind: "inconclusive", note: "the polling scheduler did not poll within seconds"}
					}
					break script
				}
			}
			if s.Class != "member" {
				// give the library the chance to act on the non-member id, probing the three calls the statement names.
				order := []string{sp.Probe}
				for _, c := range probeCalls {
					if c != sp.Probe {
						order = append(order, c)
					}
				}
				probeWrites := 0
				for k := 0; k < 120 && !e.pbox.flag.Load(); k++ {
					c := order[0]
					switch k % 4 {
					case 1:
						c = order[1]
					case 3:
						c = order[2]
					}
					if c == "Write" {
						if probeWrites >= 4 { // keep the history short
							c = "NegotiationParams"
						} else {
							probeWrites++
						}
					}
					e.probe(c, writerClient+2, fmt.Sprintf("probe-%d-%d", si, k))
					if k%6 == 5 {
						time.Sleep(20 * time.Microsecond)
					} else {
						runtime.Gosched()
					}
				}
				continue
			}
			lastValidAfter = call
			if s.Wait || si == len(sp.Script)-1 {
				out = e.confirmOrDecide(s.ID, call)
				if out.kind != "ok" {
					break script
				}
			}
		}
	case modeRR, modeLastUsed:
		if !spin(func() bool { return wpoll.n.Load() >= wpoll.budget }, 20*time.Second) {
			if !e.pbox.flag.Load() && !e.aborted() {
				out = driverOutcome{kind: "inconclusive", note: "the polling scheduler did not reach its budget of polls"}
			}
		}
	}

	select {
	case <-wdone:
	case <-abort:
		return vrun.Inconcl("aborted while writers were running")
	}

	// final selection: the last member id the scheduler emitted must become observable, then two tail writes.
	if out.kind == "ok" && !e.pbox.flag.Load() {
		ems, _ := e.elog.snapshot()
		final, after := "", lastValidAfter
		for _, em := range ems {
			if em.Valid {
				final, after = em.ID, em.Call
			}
		}
		if final != "" {
			out = e.confirmOrDecide(final, after)
		}
		if out.kind == "ok" && !e.pbox.flag.Load() {
			for i := 0; i < 2; i++ {
				if e.doWrite(writerClient, fmt.Sprintf("tail-%d", i)) {
					break
				}
			}
		}
	}
	stopObs.Store(true)
	og.Wait()

	fdone := make(chan struct{})
	go func() { fg.Wait(); close(fdone) }()
	select {
	case <-fdone:
	case <-abort:
		return vrun.Inconcl("aborted while feeding member read queues")
	}

	// ---- a panic anywhere ends the case
	if e.pbox.flag.Load() || out.kind == "panic" {
		p := e.pbox.get()
		// designated probe (sequential, nothing else runs any more) so that the finding key is stable
		keyCall := p.Call
		before := e.pbox.n.Load()
		e.probe(sp.Probe, writerClient+2, "probe-final")
		if e.pbox.n.Load() > before {
			keyCall = sp.Probe
		}
		closeMT()
		cwait(&cg, 10*time.Second)
		ems, _ := e.elog.snapshot()
		var cause *emission
		for i := range ems {
			if !ems[i].Valid && ems[i].Call < p.T {
				cause = &ems[i]
			}
		}
		wit := map[string]any{"spec": sp, "first_panic": map[string]any{"call": p.Call, "t": p.T, "panic": p.Val, "site": p.Site, "stack": p.Stack},
			"emissions": ems, "panics": e.pbox.n.Load(),
			"designated_probe": map[string]any{"call": sp.Probe, "panicked_when_called_alone_afterwards": keyCall == sp.Probe && e.pbox.n.Load() > before}}
		if cause == nil && initState != "?" {
			return vrun.Violation("a call on the multi transport panicked although only member ids were configured and emitted", "panic:"+p.Call+":"+p.Site, wit)
		}
		if cause == nil {
			return vrun.Violation(fmt.Sprintf("NewTransport accepted the %s initial transport id %q (not a member) and a later %s panicked", sp.InitClass, sp.Initial, keyCall),
				"panic-after-nonmember-id:initial-id:"+keyCall, wit)
		}
		if sp.Mode == modeLastUsed {
			return vrun.Violation(fmt.Sprintf("the library's LastUsedPoller answered the empty transport id %q, the polling scheduler emitted it and a following %s panicked", cause.ID, keyCall),
				"panic-after-nonmember-id:polling-lastused", wit)
		}
		cls, id := "unknown", ""
		if cause != nil {
			id = cause.ID
			if id == "" {
				cls = "empty"
			}
			wit["nonmember_id"] = map[string]any{"id": id, "class": cls, "emitted_at": cause.Call, "src": cause.Src}
		}
		return vrun.Violation(fmt.Sprintf("the scheduler (%s) emitted the %s transport id %q (not a member) and a following %s panicked", sp.Mode, cls, id, keyCall),
			"panic-after-nonmember-id:"+sp.origin()+":"+keyCall, wit)
	}
	switch out.kind {
	case "never-applied":
		closeMT()
		cwait(&cg, 10*time.Second)
		ems, _ := e.elog.snapshot()
		return vrun.Violation("a member id emitted by the scheduler never became the selected member although nothing was in flight any more",
			"selection-never-applied:"+sp.Mode, map[string]any{"spec": sp, "detail": out.detail, "emissions": ems})
	case "inconclusive", "aborted":
		closeMT()
		cwait(&cg, 10*time.Second)
		return vrun.Inconcl(out.kind + ": " + out.note)
	}

	// ---- read barrier: one sentinel per member after everything else it was fed
	for mi, m := range e.members {
		m.q <- []byte(fmt.Sprintf("S:%d", mi))
	}
	barrier := func() bool { e.rmu.Lock(); defer e.rmu.Unlock(); return e.sentinels >= n || len(e.readErrs) > 0 }
	if !spin(barrier, 200*time.Millisecond) {
		// Not there yet. Time decides nothing; a goroutine dump may: when every reader goroutine of the library is back in
		// its member's Read and every Read caller is blocked on the (then empty) merge queue, nothing is in flight, and a
		// message a member handed out that no Read returned is lost.
		reached := false
		for try := 0; try < 90 && !reached; try++ {
			if e.aborted() {
				return vrun.Inconcl("aborted at the read barrier")
			}
			if idle, detail := e.readPathIdle(); idle {
				if missing := e.missingReads(); len(missing) > 0 {
					closeMT()
					cwait(&cg, 10*time.Second)
					return vrun.Violation("a message read from a member was never returned by Read: every reader goroutine is back in its member's Read and every Read caller is blocked on the merge queue",
						"read-lost", map[string]any{"spec": sp, "missing": missing, "goroutines": detail})
				}
			}
			if try < 20 {
				time.Sleep(15 * time.Millisecond)
			} else {
				time.Sleep(100 * time.Millisecond)
			}
			reached = barrier()
		}
		if !reached {
			closeMT()
			cwait(&cg, 10*time.Second)
			return vrun.Inconcl("the last message fed to every member was not returned by Read within the watchdog and the goroutine dumps were not decisive")
		}
	}
	e.rmu.Lock()
	early := append([]string(nil), e.readErrs...)
	e.rmu.Unlock()
	if len(early) > 0 {
		closeMT()
		cwait(&cg, 10*time.Second)
		return vrun.Inconcl("Read returned an error before Close: " + strings.Join(early, "; "))
	}

	// ---- counters at a quiescent point (writers joined, every fed message handed out and returned)
	var sumTx, sumRx uint64
	for _, m := range e.members {
		sumTx += m.tx.Load()
		sumRx += m.rx.Load()
	}
	gotTx, gotRx := mt.TxBytesCounterValue(), mt.RxBytesCounterValue()

	// ---- close
	var cerr error
	if sp.CloseStatus == "" {
		e.pbox.guard("Close", clk, func() { cerr = mt.Close() })
	} else {
		e.pbox.guard("CloseWithStatus", clk, func() { cerr = mt.CloseWithStatus(transport.CloseStatus(sp.CloseStatus)) })
	}
	if e.pbox.flag.Load() {
		p := e.pbox.get()
		return vrun.Violation("Close panicked", "panic:"+p.Call+":"+p.Site, map[string]any{"spec": sp, "panic": p})
	}
	if !cwait(&cg, 20*time.Second) {
		return vrun.Inconcl("Read did not return after Close within the watchdog")
	}

	return e.judge(initState, sumTx, sumRx, gotTx, gotRx, cerr)
}

// readPathIdle inspects a goroutine dump for this case's goroutines only (they are identified by the addresses of the
// case's member transports and of its multi transport in the frame arguments).
func (e *env) readPathIdle() (bool, string) {
	gs := vrun.ParseStacks(vrun.AllStacks())
	e.rmu.Lock()
	ids := map[string]bool{}
	for _, id := range e.consumerIDs {
		ids["goroutine "+id+" "] = true
	}
	e.rmu.Unlock()
	consumers := 0
	readers := map[string]int{}
	for _, g := range gs {
		st := goroutineState(g.Header)
		if i := strings.Index(g.Header, "["); i > 0 && ids[g.Header[:i]] {
			if st != "select" || !strings.Contains(g.Text, "multi.(*Transport).Read(") {
				return false, "a Read caller is not blocked in Read (" + st + ")"
			}
			consumers++
			continue
		}
		if !g.LibraryOwned() {
			continue
		}
		for _, m := range e.members {
			if strings.Contains(g.Text, fmt.Sprintf("c19.(*member).Read(%p", m)) {
				if st != "select" {
					return false, "reader of " + string(m.id) + " is " + st
				}
				readers[string(m.id)]++
			}
		}
	}
	if consumers != e.sp.Consumers {
		return false, fmt.Sprintf("%d of %d Read callers found blocked in Read", consumers, e.sp.Consumers)
	}
	for _, m := range e.members {
		if readers[string(m.id)] != 1 {
			return false, "reader goroutine of " + string(m.id) + " is not waiting in its member's Read"
		}
	}
	return true, fmt.Sprintf("%d reader goroutines waiting in their member's Read, %d Read callers blocked in select on the merge queue", len(readers), consumers)
}

// missingReads lists messages members handed to the library that no Read call returned so far.
func (e *env) missingReads() []string {
	e.rmu.Lock()
	got := map[string]bool{}
	for _, r := range e.reads {
		got[r.Msg] = true
	}
	e.rmu.Unlock()
	var missing []string
	for _, m := range e.members {
		_, handed, _, _ := m.snapshot()
		for _, h := range handed {
			if !got[h] {
				missing = append(missing, string(m.id)+":"+h)
			}
		}
	}
	return missing
}

func cwait(g *sync.WaitGroup, d time.Duration) bool {
	done := make(chan struct{})
	go func() { g.Wait(); close(done) }()
	select {
	case <-done:
		return true
	case <-time.After(d):
		return false
	}
}

// ---------------------------------------------------------------------------------------------------------
// oracles

type hin struct {
	Kind  string // select | write
	ID    string
	Valid bool
	Msg   string
}

type hop struct {
	Kind   string `json:"op"`
	ID     string `json:"id,omitempty"`
	Member bool   `json:"member_id,omitempty"`
	Msg    string `json:"msg,omitempty"`
	Landed string `json:"landed_on,omitempty"`
	Call   int64  `json:"call"`
	Ret    int64  `json:"ret"`
	Open   bool   `json:"never_observed,omitempty"`
}

func routingModel(init string) porcupine.Model {
	return porcupine.Model{
		Init: func() interface{} { return init },
		Step: func(state, input, output interface{}) (bool, interface{}) {
			st := state.(string)
			in := input.(hin)
			if in.Kind == "select" {
				if in.Valid {
					return true, in.ID
				}
				return true, st // rejected or ignored
			}
			got := output.(string)
			if st == "?" { // initial id was not a member and was tolerated: the first write fixes what "ignored" meant
				return true, got
			}
			return got == st, st
		},
		DescribeOperation: func(input, output interface{}) string {
			in := input.(hin)
			if in.Kind == "select" {
				return fmt.Sprintf("select(%q)", in.ID)
			}
			return fmt.Sprintf("write(%s)->%v", in.Msg, output)
		},
	}
}

func (e *env) judge(initState string, sumTx, sumRx, gotTx, gotRx uint64, cerr error) vrun.Result {
	sp := e.sp
	n := len(sp.Members)

	// where did every write land?
	landed := map[string][]string{}
	totalLogged := 0
	for _, m := range e.members {
		ws, _, _, _ := m.snapshot()
		for _, w := range ws {
			landed[w.Msg] = append(landed[w.Msg], string(m.id))
			totalLogged++
		}
	}
	e.wmu.Lock()
	writes := append([]wop(nil), e.writes...)
	e.wmu.Unlock()
	for _, w := range writes {
		switch l := landed[w.Msg]; {
		case len(l) == 0 && w.Err == "":
			return vrun.Violation("a Write returned nil but no member received the message", "write-reached-no-member:"+sp.Mode, map[string]any{"spec": sp, "write": w})
		case len(l) > 1:
			return vrun.Violation("one Write reached more than one member", "write-reached-several-members:"+sp.Mode, map[string]any{"spec": sp, "write": w, "members": l})
		}
	}
	if totalLogged > len(writes) {
		return vrun.Violation("members received more messages than were written", "write-duplicated:"+sp.Mode, map[string]any{"spec": sp, "logged": totalLogged, "written": len(writes)})
	}

	// selections: drop what cannot change the register in a FIFO scheduler channel (id equal to the state reached so far),
	// keep non-member ids as no-ops of the model.
	ems, raw := e.elog.snapshot()
	type eff struct {
		emission
		Ret int64
	}
	var effs []eff
	var noops, nonmember int
	st := initState
	for _, em := range ems {
		if !em.Valid {
			nonmember++
			continue
		}
		if em.ID == st {
			noops++
			continue
		}
		st = em.ID
		effs = append(effs, eff{emission: em})
	}
	// confirmation: an observation of value v proves that at least j selections were applied, j the smallest index
	// not below what was already proved whose state is v.
	trans, nobs := e.obs.snapshot()
	states := []string{initState}
	for _, f := range effs {
		states = append(states, f.ID)
	}
	L, unexplained, confirmed := 0, 0, 0
	for _, o := range trans {
		found := -1
		for j := L; j < len(states); j++ {
			if j > 0 && effs[j-1].Call >= o.T1 {
				break
			}
			if states[j] == o.V || (j == 0 && states[0] == "?") {
				found = j
				break
			}
		}
		if found < 0 {
			unexplained++
			continue
		}
		for i := L + 1; i <= found; i++ {
			effs[i-1].Ret = o.T1
			confirmed++
		}
		if found > L {
			L = found
		}
	}
	end := e.clk.tick() + 1

	var ops []porcupine.Operation
	var hist []hop
	selClient := len(sp.Writers) + 1
	for _, f := range effs {
		ret, open := f.Ret, false
		if ret == 0 {
			ret, open = end, true
		}
		ops = append(ops, porcupine.Operation{ClientId: selClient, Input: hin{Kind: "select", ID: f.ID, Valid: true}, Call: f.Call, Output: "", Return: ret})
		hist = append(hist, hop{Kind: "select", ID: f.ID, Member: true, Call: f.Call, Ret: ret, Open: open})
	}
	for _, em := range ems {
		if !em.Valid {
			ops = append(ops, porcupine.Operation{ClientId: selClient, Input: hin{Kind: "select", ID: em.ID, Valid: false}, Call: em.Call, Output: "", Return: end})
			hist = append(hist, hop{Kind: "select", ID: em.ID, Member: false, Call: em.Call, Ret: end, Open: true})
		}
	}
	overlap := 0
	usedMembers := map[string]bool{}
	for _, w := range writes {
		l := landed[w.Msg]
		if len(l) != 1 {
			continue // Write returned an error and nothing was delivered
		}
		usedMembers[l[0]] = true
		ops = append(ops, porcupine.Operation{ClientId: w.Client, Input: hin{Kind: "write", Msg: w.Msg}, Call: w.Call, Output: l[0], Return: w.Ret})
		hist = append(hist, hop{Kind: "write", Msg: w.Msg, Landed: l[0], Call: w.Call, Ret: w.Ret})
		for _, f := range effs {
			r := f.Ret
			if r == 0 {
				r = end
			}
			if w.Call <= r && f.Call <= w.Ret {
				overlap++
				break
			}
		}
	}
	sort.Slice(hist, func(i, j int) bool { return hist[i].Call < hist[j].Call })

	chk, _ := porcupine.CheckOperationsVerbose(routingModel(initState), ops, 20*time.Second)
	switch chk {
	case porcupine.Unknown:
		return vrun.Inconcl(fmt.Sprintf("linearizability check of %d operations timed out", len(ops)))
	case porcupine.Illegal:
		return vrun.Violation("a Write landed on a member that was not the scheduler's selection at any point of the write (history not linearizable against the one-register routing model)",
			"write-routed-to-unselected-member:"+sp.Mode, map[string]any{"spec": sp, "initial": initState, "history": hist, "observed_transitions": trans})
	}

	// ---- reads: every message a member handed out is returned exactly once
	e.rmu.Lock()
	reads := append([]rrec(nil), e.reads...)
	e.rmu.Unlock()
	got := map[string]int{}
	for _, r := range reads {
		got[r.Msg]++
	}
	handedTotal := 0
	inversions := 0
	pos := map[string]int{}
	for i, r := range reads {
		if _, ok := pos[r.Msg]; !ok {
			pos[r.Msg] = i
		}
	}
	for _, m := range e.members {
		_, handed, _, _ := m.snapshot()
		lastPos := -1
		for _, h := range handed {
			handedTotal++
			switch c := got[h]; {
			case c == 0:
				return vrun.Violation("a message read from a member was never returned by Read although a later message of the same member was", "read-lost", map[string]any{"spec": sp, "member": m.id, "msg": h, "returned": reads})
			case c > 1:
				return vrun.Violation("a message read from a member was returned by Read more than once", "read-duplicated", map[string]any{"spec": sp, "member": m.id, "msg": h, "times": c})
			}
			if p := pos[h]; sp.Consumers == 1 && p < lastPos {
				inversions++
			} else {
				lastPos = p
			}
			delete(got, h)
		}
	}
	for msg := range got {
		return vrun.Violation("Read returned a message no member handed out", "read-unknown-message", map[string]any{"spec": sp, "msg": msg})
	}

	// ---- close reached every member
	closedN := 0
	var notClosed []string
	statuses := map[string]bool{}
	for _, m := range e.members {
		_, _, calls, st := m.snapshot()
		if calls == 0 {
			notClosed = append(notClosed, string(m.id))
		} else {
			closedN++
		}
		for _, s := range st {
			statuses[s] = true
		}
	}
	if len(notClosed) > 0 {
		key := "member-not-closed"
		for _, b := range sp.CloseErr {
			if b {
				key = "member-not-closed:some-member-close-failed"
			}
		}
		return vrun.Violation("Close returned but a member transport was never closed", key, map[string]any{"spec": sp, "not_closed": notClosed, "close_error": fmt.Sprint(cerr)})
	}

	// ---- counters
	if gotTx != sumTx {
		return vrun.Violation("TxBytesCounterValue differs from the sum over members at a quiescent point", "counter-not-sum:tx", map[string]any{"spec": sp, "multi": gotTx, "sum": sumTx})
	}
	if gotRx != sumRx {
		return vrun.Violation("RxBytesCounterValue differs from the sum over members at a quiescent point", "counter-not-sum:rx", map[string]any{"spec": sp, "multi": gotRx, "sum": sumRx})
	}

	nontrivial := len(writes) > 0 && closedN == n && (confirmed > 0 || (nonmember > 0 && e.probes.Load() > 0) || initState == "?")
	if sp.Flavor == "nonmember" {
		nontrivial = len(writes) > 0 && (nonmember > 0 || initState == "?")
	}
	res := vrun.Hold(sp.sig(), nontrivial)
	if e.verbose {
		res.Desc = map[string]any{"spec": sp, "history_sample": head(hist, 14)}
	}
	res.Stat("writes", int64(len(writes)))
	res.Stat("writes_overlapping_a_selection_interval", int64(overlap))
	res.Stat("selections_emitted_raw", raw)
	res.Stat("selections_effective", int64(len(effs)))
	res.Stat("selections_observed_applied", int64(confirmed))
	res.Stat("selections_of_current_member_dropped", int64(noops))
	res.Stat("nonmember_ids_emitted", int64(nonmember))
	res.Stat("calls_probed_after_nonmember_id", e.probes.Load())
	res.Stat("observations", nobs)
	res.Stat("observations_unexplained", int64(unexplained))
	res.Stat("asunreliable_calls", e.unrelCalls.Load())
	res.Stat("porcupine_operations", int64(len(ops)))
	res.Stat("messages_read_from_members", int64(handedTotal))
	res.Stat("per_member_order_inversions_seen_with_one_reader", int64(inversions))
	res.Stat("members_closed", int64(closedN))
	res.Stat("tx_bytes", int64(sumTx))
	res.Stat("rx_bytes", int64(sumRx))
	res.Stat("members_written_to", int64(len(usedMembers)))
	res.AddSet("modes", sp.Mode)
	res.AddSet("member_counts", fmt.Sprint(n))
	res.AddSet("writer_counts", fmt.Sprint(len(sp.Writers)))
	res.AddSet("consumer_counts", fmt.Sprint(sp.Consumers))
	for s := range statuses {
		res.AddSet("member_close_calls", s)
	}
	if cerr != nil {
		res.AddSet("close_results", "joined-error")
	} else {
		res.AddSet("close_results", "nil")
	}
	if nonmember > 0 {
		for _, em := range ems {
			if !em.Valid {
				cls := "unknown"
				if em.ID == "" {
					cls = "empty"
				}
				res.AddSet("nonmember_id_outcomes", sp.Mode+"-"+cls+":ignored")
			}
		}
	}
	if initState == "?" {
		res.AddSet("nonmember_id_outcomes", "initial-"+sp.InitClass+":tolerated")
	}
	return res
}

func head(h []hop, k int) []hop {
	if len(h) > k {
		return h[:k]
	}
	return h
}
