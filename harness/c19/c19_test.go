// C19 - the multi transport routes writes to the selected member and merges all reads.
//
// Workloads:
//
//	TestC19Routing     only member ids are configured and emitted: routing (porcupine, one-register model), exactly-once
//	                   reads, Close reaches every member, counters are sums.
//	TestC19NonMember   the initial id or a scheduler output is the empty id or an id outside the member set: must be
//	                   rejected or ignored and must never make Write / AsUnreliable / NegotiationParams panic; the same
//	                   oracles as above run on whatever survives.
//	TestC19ConnConfig  the same configuration question asked through iscp.Connect (iscp/conn_options.go builds the
//	                   multi transport from MultiTransportConfig).
package c19

import (
	"bytes"
	"context"
	"fmt"
	"sync"
	"testing"
	"time"

	"github.com/aptpod/iscp-go/encoding"
	ejson "github.com/aptpod/iscp-go/encoding/json"
	eproto "github.com/aptpod/iscp-go/encoding/protobuf"
	"github.com/aptpod/iscp-go/iscp"
	"github.com/aptpod/iscp-go/message"
	"github.com/aptpod/iscp-go/transport"
	"github.com/aptpod/iscp-go/transport/multi"

	"verif/harness/vrun"
)

var assumptions = []string{
	"The scheduler's current selection is its most recent emission: emissions travel through one FIFO channel, so an observation (NegotiationParams().TransportID) that shows a later selection also proves every earlier one took effect. A selection's interval runs from the tick before the id is handed to the library to the first such observation; a selection never observed stays open to the end of the history.",
	"An emission that repeats the state reached by the emissions before it (polling schedulers repeat their answer every tick) is left out of the history: through a FIFO channel it cannot change the selected member.",
	"'Rejected or ignored' is read as: a non-member id leaves the selected member unchanged (a no-op of the model). If NewTransport tolerates a non-member initial id without any later crash, the first Write decides which member 'ignored' fell back to.",
	"Exactly-once reads are judged at a barrier: the harness feeds one last message per member after everything else and a message is lost only if that later message of the same member was returned and it was not (per-member FIFO through the merge queue is what the one reader goroutine per member provides). Order itself is not judged.",
	"AsUnreliable and NegotiationParams are only required not to panic; which member they answer for is used as an observation, not judged.",
	"The default polling scheduler (nil PollingScheduler: round robin every 5 s) is not driven: its emissions cannot be observed from outside and no wall-clock argument may decide a violation.",
}

func runCase(sp *spec, verbose bool) vrun.Result {
	abort := make(chan struct{})
	var res vrun.Result
	ok, dump := vrun.Watchdog(90*time.Second, func() { res = execCase(sp, abort, verbose) })
	if !ok {
		close(abort)
		if len(dump) > 3000 {
			dump = dump[:3000]
		}
		r := vrun.Inconcl("case watchdog (90 s) fired")
		r.Desc = map[string]any{"spec": sp, "dump_head": dump}
		return r
	}
	return res
}

func TestC19Routing(t *testing.T) {
	e := vrun.LoadEnv()
	meta := vrun.Meta{Property: "C19", Workload: "TestC19Routing", Total: e.Pick(8000, 100000), Assumptions: assumptions,
		Rule: "Each case draws from its PRNG: 1-5 scripted member transports (some implementing transport.Closer, some failing Close, some unreliable-capable), a member as initial id, a scheduler (event scheduler fed by the harness; NICEventSubscriber fed NIC names; polling scheduler with a scripted poller; polling scheduler with the library's RoundRobinPoller) and 1-10 selections of member ids, 1-8 concurrent writer goroutines (<=36 writes) with generated pauses, 0-5 messages per member read queue, 1-3 Read callers. Runs in real time with real parallelism. Non-trivial: at least one selection that changes the member was observed applied and writes happened. Distinct: (mode, member count, writers, consumers, hash of members/script/feeds)."}
	vrun.Loop(t, meta, 0, func(c *vrun.Case) vrun.Result {
		return runCase(genSpec(c.Rng, "routing"), c.Index < 24)
	})
}

func TestC19NonMember(t *testing.T) {
	e := vrun.LoadEnv()
	meta := vrun.Meta{Property: "C19", Workload: "TestC19NonMember", Total: e.Pick(2500, 25000), Assumptions: assumptions,
		Rule: "Same generator as TestC19Routing, but every case names a transport id outside the member set: the initial id is empty or unknown (35%), or the event scheduler / NIC subscriber / scripted poller emits 1-3 empty or unknown ids between member ids (40%; the driver then calls Write, AsUnreliable and NegotiationParams up to 60 times before it goes on), or the RoundRobinPoller is built over a list holding an empty/unknown id or over no list (10%), or the library's LastUsedPoller drives the polling scheduler (15%). Non-trivial: a non-member id was configured or emitted and writes happened (or NewTransport rejected the configuration). Distinct: as TestC19Routing plus the outcome."}
	vrun.Loop(t, meta, 0, func(c *vrun.Case) vrun.Result {
		return runCase(genSpec(c.Rng, "nonmember"), c.Index < 24)
	})
}

// ---------------------------------------------------------------------------------------------------------
// iscp.Connect with a MultiTransportConfig

type connCase struct {
	N         int    `json:"members"`
	InitClass string `json:"initial_class"` // member | empty | unknown
	InitIdx   int    `json:"initial_index"`
	Sched     string `json:"scheduler"` // default | event | polling
	Enc       string `json:"encoding"`
}

func connCases() []connCase {
	var cs []connCase
	for _, enc := range []string{"proto", "json"} {
		for n := 1; n <= 3; n++ {
			for _, sched := range []string{"default", "event", "polling"} {
				for i := 0; i < n; i++ {
					cs = append(cs, connCase{N: n, InitClass: "member", InitIdx: i, Sched: sched, Enc: enc})
				}
				cs = append(cs, connCase{N: n, InitClass: "empty", Sched: sched, Enc: enc})
				cs = append(cs, connCase{N: n, InitClass: "unknown", Sched: sched, Enc: enc})
			}
		}
	}
	return cs
}

func TestC19ConnConfig(t *testing.T) {
	cases := connCases()
	meta := vrun.Meta{Property: "C19", Workload: "TestC19ConnConfig", Total: len(cases), Exhaustive: true, Assumptions: assumptions,
		Rule: "Complete grid: encoding {proto,json} x 1-3 dialers in MultiTransportConfig.DialerMap x scheduler {none given, event scheduler that stays silent, polling scheduler whose poller answers the initial member} x InitialTransportID {each member, empty (the zero value), unknown}. iscp.Connect is called; the scripted members answer the connect request. Judged: no panic; a member initial id is accepted and the connect request lands on it (only when the scheduler is harness-driven); a non-member initial id is rejected or harmless; Conn.Close closes every dialed member. Non-trivial: Connect returned (either way) or panicked. Distinct: the grid cell."}
	vrun.Loop(t, meta, 0, func(c *vrun.Case) vrun.Result {
		cc := cases[c.Index]
		var res vrun.Result
		ok, dump := vrun.Watchdog(60*time.Second, func() { res = runConnCase(cc) })
		if !ok {
			if len(dump) > 3000 {
				dump = dump[:3000]
			}
			r := vrun.Inconcl("case watchdog (60 s) fired")
			r.Desc = map[string]any{"case": cc, "dump_head": dump}
			return r
		}
		return res
	})
}

func runConnCase(cc connCase) vrun.Result {
	clk := &lclock{}
	pbox := &panicBox{}
	ids := []string{"wifi", "lte", "sat"}[:cc.N]
	var enc encoding.Encoding = eproto.NewEncoding()
	encName := iscp.EncodingNameProtobuf
	if cc.Enc == "json" {
		enc, encName = ejson.NewEncoding(), iscp.EncodingNameJSON
	}
	var mu sync.Mutex
	dialed := map[string]*member{}
	redials := 0
	dialers := map[transport.TransportID]transport.Dialer{}
	for _, id := range ids {
		id := id
		dialers[transport.TransportID(id)] = transport.DialerFunc(func(dc transport.DialConfig) (transport.Transport, error) {
			mu.Lock()
			defer mu.Unlock()
			if dc.Reconnect || dialed[id] != nil {
				redials++
				return nil, fmt.Errorf("scripted dialer %s: no second connection", id)
			}
			m := newMember(id, clk, string(dc.TransportGroupID), dc.TransportGroupTotalCount, dc.TransportGroupIndex)
			m.params = dc.NegotiationParams()
			m.onWrite = func(m *member, bs []byte) {
				_, msg, err := enc.DecodeFrom(bytes.NewReader(bs))
				if err != nil {
					return
				}
				if req, ok := msg.(*message.ConnectRequest); ok {
					var buf bytes.Buffer
					if _, err := enc.EncodeTo(&buf, &message.ConnectResponse{RequestID: req.RequestID, ProtocolVersion: req.ProtocolVersion, ResultCode: message.ResultCodeSucceeded, ResultString: "OK"}); err == nil {
						m.q <- buf.Bytes()
					}
				}
			}
			dialed[id] = m
			return closerMember{m}, nil
		})
	}
	initial := ""
	switch cc.InitClass {
	case "member":
		initial = ids[cc.InitIdx]
	case "unknown":
		initial = "ghost"
	}
	mc := &iscp.MultiTransportConfig{DialerMap: dialers, InitialTransportID: transport.TransportID(initial), MaxReconnectAttempts: 1, ReconnectInterval: time.Millisecond}
	elog := &emitLog{members: map[string]bool{}}
	switch cc.Sched {
	case "event":
		mc.EventScheduler = &multi.EventScheduler{Subscriber: &chanSubscriber{ch: make(chan transport.TransportID)}}
	case "polling":
		sp := &scriptedPoller{clk: clk, log: elog}
		v := initial
		if cc.InitClass != "member" {
			v = ids[0]
		}
		sp.cur.Store(&v)
		mc.PollingScheduler = &multi.PollingScheduler{Poller: sp, Interval: 20 * time.Millisecond}
	}
	closeAll := func() {
		mu.Lock()
		defer mu.Unlock()
		for _, m := range dialed {
			m.Close()
		}
	}

	var conn *iscp.Conn
	var err error
	panicked := pbox.guard("iscp.Connect", clk, func() {
		conn, err = iscp.Connect("harness.invalid:0", iscp.TransportNameMulti, iscp.WithConnMultiTransport(mc), iscp.WithConnEncoding(encName),
			iscp.WithConnPingInterval(time.Second), iscp.WithConnPingTimeout(5*time.Second))
	})
	sig := fmt.Sprintf("conn/%s/n%d/%s/%s#%d", cc.Enc, cc.N, cc.Sched, cc.InitClass, cc.InitIdx)
	if panicked {
		closeAll()
		p := pbox.get()
		wit := map[string]any{"case": cc, "initial_id": initial, "panic": p.Val, "site": p.Site, "stack": p.Stack}
		if cc.InitClass == "member" {
			return vrun.Violation("iscp.Connect panicked with a member as InitialTransportID", "panic:iscp.Connect:"+p.Site, wit)
		}
		return vrun.Violation(fmt.Sprintf("iscp.Connect with MultiTransportConfig.InitialTransportID=%q (%s, not a key of DialerMap) panicked", initial, cc.InitClass),
			"panic-after-nonmember-id:initial-id:iscp.Connect", wit)
	}
	if err != nil {
		closeAll()
		if cc.InitClass == "member" {
			return vrun.Violation("iscp.Connect rejected a configuration whose initial id is a member", "valid-config-rejected:iscp.Connect", map[string]any{"case": cc, "err": err.Error()})
		}
		res := vrun.Hold(sig+"/rejected", true)
		res.Desc = cc
		res.Stat("nonmember_initial_id_rejected", 1)
		res.AddSet("nonmember_id_outcomes", "iscp.Connect-initial-"+cc.InitClass+":rejected")
		return res
	}
	// connected
	mu.Lock()
	var landedOn []string
	for id, m := range dialed {
		ws, _, _, _ := m.snapshot()
		if len(ws) > 0 {
			landedOn = append(landedOn, id)
		}
	}
	mu.Unlock()
	ctx, cancel := context.WithTimeout(context.Background(), 10*time.Second)
	var cerr error
	cpan := pbox.guard("Conn.Close", clk, func() { cerr = conn.Close(ctx) })
	cancel()
	if cpan {
		closeAll()
		p := pbox.get()
		return vrun.Violation("Conn.Close panicked", "panic:Conn.Close:"+p.Site, map[string]any{"case": cc, "panic": p})
	}
	var notClosed []string
	mu.Lock()
	for id, m := range dialed {
		if _, _, calls, _ := m.snapshot(); calls == 0 {
			notClosed = append(notClosed, id)
		}
	}
	nd := len(dialed)
	mu.Unlock()
	closeAll()
	if cc.InitClass == "member" && cc.Sched != "default" {
		if len(landedOn) != 1 || landedOn[0] != initial {
			return vrun.Violation("the connect request did not land on the configured initial member", "write-routed-to-unselected-member:iscp.Connect", map[string]any{"case": cc, "initial": initial, "landed_on": landedOn})
		}
	}
	if len(notClosed) > 0 {
		return vrun.Violation("Conn.Close returned but a dialed member transport was never closed", "member-not-closed:iscp.Conn.Close", map[string]any{"case": cc, "not_closed": notClosed, "close_error": fmt.Sprint(cerr)})
	}
	res := vrun.Hold(sig, true)
	res.Desc = map[string]any{"case": cc, "connect_request_landed_on": landedOn}
	res.Stat("iscp_connects", 1)
	res.Stat("members_closed", int64(nd))
	if cc.InitClass != "member" {
		res.AddSet("nonmember_id_outcomes", "iscp.Connect-initial-"+cc.InitClass+":tolerated")
	}
	res.AddSet("modes", "iscp.Connect/"+cc.Sched)
	return res
}
