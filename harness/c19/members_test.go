// C19 - scripted member transports, scheduler drivers and recorders.
package c19

import (
	"context"
	"fmt"
	"runtime"
	"runtime/debug"
	"strings"
	"sync"
	"sync/atomic"

	"github.com/aptpod/iscp-go/transport"
	"github.com/aptpod/iscp-go/transport/multi"

	"verif/harness/vrun"
)

// lclock is the one logical clock of a case: every recorded event takes a unique, totally ordered tick.
type lclock struct{ n atomic.Int64 }

func (c *lclock) tick() int64 { return c.n.Add(1) }
func (c *lclock) now() int64  { return c.n.Load() }

// ---------------------------------------------------------------------------------------------------------
// member transports

type wrec struct {
	T   int64  `json:"t"`
	Msg string `json:"msg"`
}

// member is a scripted transport.Transport: it logs what is written to it, hands out what the test feeds to
// its read queue, counts bytes and records Close.
type member struct {
	id      transport.TransportID
	clk     *lclock
	params  transport.NegotiationParams
	q       chan []byte
	closeCh chan struct{}
	once    sync.Once

	mu          sync.Mutex
	writes      []wrec
	handed      []string // messages Read returned to the library, in order
	closeCalls  int
	closeStatus []string

	tx, rx    atomic.Uint64
	readCalls atomic.Int64

	unrel    *unrelT // nil: AsUnreliable answers (nil,false)
	closeErr error
	yields   int                        // scheduling points inside Write (widens the window under the library's read lock)
	onWrite  func(m *member, bs []byte) // optional reaction (used by the ConnConfig workload)
}

func newMember(id string, clk *lclock, group string, total, idx int) *member {
	return &member{
		id: transport.TransportID(id), clk: clk,
		params: transport.NegotiationParams{TransportID: transport.TransportID(id), TransportGroupID: transport.TransportGroupID(group),
			TransportGroupTotalCount: total, TransportGroupIndex: idx},
		q: make(chan []byte, 64), closeCh: make(chan struct{}),
	}
}

func (m *member) Read() ([]byte, error) {
	m.readCalls.Add(1)
	select {
	case b := <-m.q:
		m.rx.Add(uint64(len(b)))
		m.mu.Lock()
		m.handed = append(m.handed, string(b))
		m.mu.Unlock()
		return b, nil
	case <-m.closeCh:
		return nil, transport.ErrAlreadyClosed
	}
}

func (m *member) Write(bs []byte) error {
	for i := 0; i < m.yields; i++ {
		runtime.Gosched()
	}
	t := m.clk.tick()
	m.mu.Lock()
	m.writes = append(m.writes, wrec{T: t, Msg: string(bs)})
	m.mu.Unlock()
	m.tx.Add(uint64(len(bs)))
	if m.onWrite != nil {
		m.onWrite(m, bs)
	}
	return nil
}

func (m *member) closed(status string) error {
	m.mu.Lock()
	m.closeCalls++
	m.closeStatus = append(m.closeStatus, status)
	m.mu.Unlock()
	m.once.Do(func() { close(m.closeCh) })
	return m.closeErr
}

func (m *member) Close() error { return m.closed("Close") }

func (m *member) AsUnreliable() (transport.UnreliableTransport, bool) {
	if m.unrel == nil {
		return nil, false
	}
	return m.unrel, true
}
func (m *member) NegotiationParams() transport.NegotiationParams { return m.params }
func (m *member) Name() transport.Name                           { return transport.Name("scripted-" + string(m.id)) }
func (m *member) RxBytesCounterValue() uint64                    { return m.rx.Load() }
func (m *member) TxBytesCounterValue() uint64                    { return m.tx.Load() }

func (m *member) snapshot() (writes []wrec, handed []string, closeCalls int, status []string) {
	m.mu.Lock()
	defer m.mu.Unlock()
	return append([]wrec(nil), m.writes...), append([]string(nil), m.handed...), m.closeCalls, append([]string(nil), m.closeStatus...)
}

// closerMember additionally implements transport.Closer (the other branch of multi's CloseWithStatus).
type closerMember struct{ *member }

func (m closerMember) CloseWithStatus(s transport.CloseStatus) error {
	return m.member.closed("CloseWithStatus:" + string(s))
}

var (
	_ transport.Transport = (*member)(nil)
	_ transport.Transport = closerMember{}
	_ transport.Closer    = closerMember{}
)

type unrelT struct{ owner transport.TransportID }

func (u *unrelT) Read() ([]byte, error)       { return nil, transport.ErrAlreadyClosed }
func (u *unrelT) Write([]byte) error          { return nil }
func (u *unrelT) Close() error                { return nil }
func (u *unrelT) RxBytesCounterValue() uint64 { return 0 }
func (u *unrelT) TxBytesCounterValue() uint64 { return 0 }
func (u *unrelT) IsUnreliable()               {}

// ---------------------------------------------------------------------------------------------------------
// emission log (what the scheduler told the multi transport, and when)

type emission struct {
	Call  int64  `json:"call"` // tick taken before the id was handed to the library
	ID    string `json:"id"`
	Valid bool   `json:"member"`
	Src   string `json:"src,omitempty"` // NIC name / poller kind
}

type emitLog struct {
	mu      sync.Mutex
	members map[string]bool
	list    []emission
	raw     int64 // emissions including immediate repetitions of the same id
}

// add records an emission. An id equal to the previously emitted id is not recorded again: through a FIFO
// scheduler channel it cannot change anything (polling schedulers repeat their answer on every tick).
func (l *emitLog) add(call int64, id, src string) {
	l.mu.Lock()
	defer l.mu.Unlock()
	l.raw++
	if n := len(l.list); n > 0 && l.list[n-1].ID == id {
		return
	}
	l.list = append(l.list, emission{Call: call, ID: id, Valid: l.members[id], Src: src})
}

func (l *emitLog) snapshot() ([]emission, int64) {
	l.mu.Lock()
	defer l.mu.Unlock()
	return append([]emission(nil), l.list...), l.raw
}

func (l *emitLog) count() int {
	l.mu.Lock()
	defer l.mu.Unlock()
	return len(l.list)
}

// ---------------------------------------------------------------------------------------------------------
// schedulers driven by the harness

// chanSubscriber is an event-scheduler Subscriber whose channel the harness writes to.
type chanSubscriber struct{ ch chan transport.TransportID }

func (s *chanSubscriber) Subscribe(ctx context.Context) <-chan transport.TransportID { return s.ch }

// nicListener is a NICEventListener whose channel the harness writes NIC names to.
type nicListener struct{ ch chan string }

func (n *nicListener) Subscribe() <-chan string { return n.ch }

// scriptedPoller answers the value the driver stored last and logs every answer.
type scriptedPoller struct {
	clk  *lclock
	log  *emitLog
	cur  atomic.Pointer[string]
	gets atomic.Int64
	seen atomic.Pointer[string] // last value returned
}

func (p *scriptedPoller) Get() transport.TransportID {
	call := p.clk.tick()
	v := p.cur.Load()
	p.log.add(call, *v, "scripted-poller")
	p.seen.Store(v)
	p.gets.Add(1)
	return transport.TransportID(*v)
}

// wrapPoller logs the answers of a library poller (RoundRobinPoller, LastUsedPoller). After budget answers it
// repeats its last answer so that histories stay short.
type wrapPoller struct {
	clk    *lclock
	log    *emitLog
	inner  multi.Poller
	kind   string
	budget int64
	n      atomic.Int64
	last   atomic.Pointer[string]
}

func (p *wrapPoller) Get() transport.TransportID {
	call := p.clk.tick()
	if p.n.Load() >= p.budget {
		if l := p.last.Load(); l != nil {
			p.log.add(call, *l, p.kind)
			return transport.TransportID(*l)
		}
	}
	id := string(p.inner.Get())
	p.log.add(call, id, p.kind)
	p.last.Store(&id)
	p.n.Add(1)
	return transport.TransportID(id)
}

// SetMultiTransport forwards to pollers that want the transport (LastUsedPoller).
func (p *wrapPoller) SetMultiTransport(t *multi.Transport) {
	if s, ok := p.inner.(multi.MultiTransportSetter); ok {
		s.SetMultiTransport(t)
	}
}

var (
	_ multi.Poller               = (*wrapPoller)(nil)
	_ multi.MultiTransportSetter = (*wrapPoller)(nil)
	_ multi.Subscriber           = (*chanSubscriber)(nil)
	_ multi.NICEventListener     = (*nicListener)(nil)
)

// ---------------------------------------------------------------------------------------------------------
// panic recorder

type panicRec struct {
	Call  string `json:"call"`
	T     int64  `json:"t"`
	Val   string `json:"panic"`
	Site  string `json:"site"`
	Stack string `json:"stack"`
}

type panicBox struct {
	mu    sync.Mutex
	first *panicRec
	flag  atomic.Bool
	n     atomic.Int64
}

// guard runs f and records a panic of f (the calling goroutine is a harness goroutine, i.e. an application call).
func (p *panicBox) guard(call string, clk *lclock, f func()) (panicked bool) {
	defer func() {
		if r := recover(); r != nil {
			st := string(debug.Stack())
			rec := &panicRec{Call: call, T: clk.tick(), Val: fmt.Sprint(r), Site: vrun.PanicSite(st), Stack: trimStack(st)}
			p.mu.Lock()
			if p.first == nil || rec.T < p.first.T {
				p.first = rec
			}
			p.mu.Unlock()
			p.n.Add(1)
			p.flag.Store(true)
			panicked = true
		}
	}()
	f()
	return false
}

func (p *panicBox) get() *panicRec {
	p.mu.Lock()
	defer p.mu.Unlock()
	return p.first
}

func trimStack(st string) string {
	lines := strings.Split(st, "\n")
	if len(lines) > 24 {
		lines = lines[:24]
	}
	return strings.Join(lines, "\n")
}

// ---------------------------------------------------------------------------------------------------------
// observer: polls the public observation of the selection (NegotiationParams().TransportID)

type obsRec struct {
	T0 int64  `json:"t0"`
	T1 int64  `json:"t1"`
	V  string `json:"v"`
}

type observer struct {
	mu     sync.Mutex
	trans  []obsRec // observations whose value differs from the previous observation (plus the first)
	latest obsRec
	count  int64
}

func (o *observer) put(r obsRec) {
	o.mu.Lock()
	if o.count == 0 || o.latest.V != r.V {
		o.trans = append(o.trans, r)
	}
	o.latest = r
	o.count++
	o.mu.Unlock()
}

func (o *observer) last() (obsRec, int64) {
	o.mu.Lock()
	defer o.mu.Unlock()
	return o.latest, o.count
}

func (o *observer) snapshot() ([]obsRec, int64) {
	o.mu.Lock()
	defer o.mu.Unlock()
	return append([]obsRec(nil), o.trans...), o.count
}
