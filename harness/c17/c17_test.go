// C17 - negotiation parameters round-trip through every carrier, invalid sets are rejected, and the derived
// compression configuration is a function of the parameters alone.
package c17

import (
	"encoding/binary"
	"fmt"
	"net/url"
	"reflect"
	"sort"
	"strconv"
	"strings"
	"testing"
	"unicode/utf8"

	"github.com/aptpod/iscp-go/transport"
	"github.com/aptpod/iscp-go/transport/compress"
	tquic "github.com/aptpod/iscp-go/transport/quic"
	tws "github.com/aptpod/iscp-go/transport/websocket"
	twt "github.com/aptpod/iscp-go/transport/webtransport"

	"verif/harness/vrun"
)

func ip(i int) *int { return &i }

type pset struct {
	Enc     string `json:"enc"`
	Comp    string `json:"comp"`
	Level   *int   `json:"level"`
	Win     *int   `json:"win"`
	Recon   bool   `json:"reconnect"`
	TID     string `json:"tid"`
	TGID    string `json:"tgid"`
	TGCount int    `json:"tgcount"`
	TGIdx   int    `json:"tgidx"`
}

func (s pset) params() transport.NegotiationParams {
	return transport.NegotiationParams{
		Encoding: transport.EncodingName(s.Enc), Compress: compress.Type(s.Comp),
		CompressLevel: s.Level, CompressWindowBits: s.Win, Reconnect: s.Recon,
		TransportID: transport.TransportID(s.TID), TransportGroupID: transport.TransportGroupID(s.TGID),
		TransportGroupTotalCount: s.TGCount, TransportGroupIndex: s.TGIdx,
	}
}

func eqParams(a, b transport.NegotiationParams) bool {
	pe := func(x, y *int) bool {
		if x == nil || y == nil {
			return x == y
		}
		return *x == *y
	}
	return a.Encoding == b.Encoding && a.Compress == b.Compress && pe(a.CompressLevel, b.CompressLevel) &&
		pe(a.CompressWindowBits, b.CompressWindowBits) && a.Reconnect == b.Reconnect && a.TransportID == b.TransportID &&
		a.TransportGroupID == b.TransportGroupID && a.TransportGroupTotalCount == b.TransportGroupTotalCount &&
		a.TransportGroupIndex == b.TransportGroupIndex
}

func show(p transport.NegotiationParams) string {
	f := func(x *int) string {
		if x == nil {
			return "nil"
		}
		return strconv.Itoa(*x)
	}
	return fmt.Sprintf("{enc=%q comp=%q level=%s win=%s reconnect=%v tid=%q tgid=%q tgcount=%d tgidx=%d}", p.Encoding, p.Compress,
		f(p.CompressLevel), f(p.CompressWindowBits), p.Reconnect, p.TransportID, p.TransportGroupID, p.TransportGroupTotalCount, p.TransportGroupIndex)
}

// carriers: name -> round trip of a parameter set; returns the decoded set or an error.
type carrier struct {
	name string
	rt   func(p transport.NegotiationParams) (transport.NegotiationParams, error)
}

var carriers = []carrier{
	{"keyvalues", func(p transport.NegotiationParams) (transport.NegotiationParams, error) {
		kv, err := p.MarshalKeyValues()
		if err != nil {
			return transport.NegotiationParams{}, fmt.Errorf("marshal: %w", err)
		}
		var q transport.NegotiationParams
		err = q.UnmarshalKeyValues(kv)
		return q, err
	}},
	{"websocket-url", func(p transport.NegotiationParams) (transport.NegotiationParams, error) {
		a := tws.NegotiationParams{NegotiationParams: p}
		v, err := a.MarshalURLValues()
		if err != nil {
			return transport.NegotiationParams{}, fmt.Errorf("marshal: %w", err)
		}
		// through the textual query form, as on the wire
		v2, err := url.ParseQuery(v.Encode())
		if err != nil {
			return transport.NegotiationParams{}, fmt.Errorf("query: %w", err)
		}
		var q tws.NegotiationParams
		err = q.UnmarshalURLValues(v2)
		return q.NegotiationParams, err
	}},
	{"webtransport-url", func(p transport.NegotiationParams) (transport.NegotiationParams, error) {
		a := twt.NegotiationParams{NegotiationParams: p}
		v, err := a.MarshalURLValues()
		if err != nil {
			return transport.NegotiationParams{}, fmt.Errorf("marshal: %w", err)
		}
		v2, err := url.ParseQuery(v.Encode())
		if err != nil {
			return transport.NegotiationParams{}, fmt.Errorf("query: %w", err)
		}
		var q twt.NegotiationParams
		err = q.UnmarshalURLValues(v2)
		return q.NegotiationParams, err
	}},
	{"quic-binary", func(p transport.NegotiationParams) (transport.NegotiationParams, error) {
		a := tquic.NegotiationParams{NegotiationParams: p}
		b, err := a.Marshal()
		if err != nil {
			return transport.NegotiationParams{}, fmt.Errorf("marshal: %w", err)
		}
		var q tquic.NegotiationParams
		err = q.Unmarshal(b)
		return q.NegotiationParams, err
	}},
}

var (
	encs   = []string{"", "json", "proto"}
	comps  = []string{"", "per-message", "context-takeover"}
	levels = []*int{nil, ip(0), ip(1), ip(2), ip(3), ip(4), ip(5), ip(6), ip(7), ip(8), ip(9)}
	wins   = []*int{nil, ip(0), ip(1), ip(8), ip(15), ip(32)}
	groups = []pset{
		{},
		{TID: "t-1"},
		{TID: "ｔ/漢字 &=?", TGID: "g 1", TGCount: 3, TGIdx: 2},
		{TGID: "00000000-0000-0000-0000-000000000001", TGCount: 1, TGIdx: 0},
		{TID: "a", TGID: "b", TGCount: 65536, TGIdx: 65535},
	}
	bases = []compress.Config{
		{},
		{Enable: true, Level: 3, DisableContextTakeover: true, WindowBits: 11},
		{Enable: false, Level: 9, DisableContextTakeover: false, WindowBits: 15},
		{Enable: true, Level: 1, DisableContextTakeover: false, WindowBits: 8},
	}
)

// TestC17Grid enumerates the whole valid grid. One case = one (encoding, type, level) cell, which covers
// every window, reconnect flag and group-field variant of that cell through all four carriers.
func TestC17Grid(t *testing.T) {
	type cell struct{ e, c, l int }
	var cells []cell
	for e := range encs {
		for c := range comps {
			for l := range levels {
				cells = append(cells, cell{e, c, l})
			}
		}
	}
	meta := vrun.Meta{Property: "C17", Workload: "TestC17Grid", Total: len(cells), Exhaustive: true,
		Rule: "exhaustive grid encoding{'',json,proto} x type{'',per-message,context-takeover} x level{nil,0..9}; each case sweeps window{nil,0,1,8,15,32} x reconnect x 5 group-field variants through key/value, websocket URL, webtransport URL and QUIC binary carriers; all cases are distinct; non-trivial = every set of the cell passed Validate and was compared after each carrier",
		Assumptions: []string{"equality is on field values (pointer fields by pointee)", "URL carriers are taken through url.Values.Encode/ParseQuery as on the wire"}}
	vrun.Loop(t, meta, 0, func(c *vrun.Case) vrun.Result {
		cl := cells[c.Index]
		res := vrun.Hold(fmt.Sprintf("enc=%q,comp=%q,level=%d", encs[cl.e], comps[cl.c], cl.l), true)
		res.Desc = map[string]any{"enc": encs[cl.e], "comp": comps[cl.c], "level": levels[cl.l], "windows": "nil,0,1,8,15,32", "reconnect": "both", "groups": len(groups)}
		for _, w := range wins {
			for _, rc := range []bool{false, true} {
				for _, g := range groups {
					s := g
					s.Enc, s.Comp, s.Level, s.Win, s.Recon = encs[cl.e], comps[cl.c], levels[cl.l], w, rc
					p := s.params()
					// copy because Validate fills in the default level
					pv := p
					if err := pv.Validate(); err != nil {
						return vrun.Violation("a valid parameter set is refused by Validate", "grid-valid-set-refused", map[string]any{"set": s, "err": err.Error()})
					}
					res.Stat("sets", 1)
					for _, car := range carriers {
						q, err := car.rt(p)
						if err != nil {
							return vrun.Violation("a valid parameter set does not survive carrier "+car.name, "roundtrip-error:"+car.name, map[string]any{"set": s, "err": err.Error()})
						}
						if !eqParams(p, q) {
							return vrun.Violation("a valid parameter set is changed by carrier "+car.name, "roundtrip-changed:"+car.name, map[string]any{"set": s, "in": show(p), "out": show(q)})
						}
						res.Stat("roundtrips", 1)
					}
					// derivation: function of the parameters alone when type, level and window are all named
					if s.Comp != "" && s.Level != nil && s.Win != nil {
						ref := p.CompressConfig(bases[0])
						for _, b := range bases[1:] {
							got := p.CompressConfig(b)
							if got.Enable != ref.Enable || (ref.Enable && (got.Level != ref.Level || got.WindowBits != ref.WindowBits || got.DisableContextTakeover != ref.DisableContextTakeover)) {
								return vrun.Violation("derived compression configuration depends on the local base configuration", "derivation-depends-on-base", map[string]any{"set": s, "base": b, "got": got, "ref": ref})
							}
						}
						// and it must be what the parameters say
						wantEnable := *s.Level != 0
						if ref.Enable != wantEnable || (ref.Enable && (ref.Level != *s.Level || ref.WindowBits != *s.Win || ref.DisableContextTakeover != (s.Comp == "per-message"))) {
							return vrun.Violation("derived compression configuration differs from the named parameters", "derivation-wrong", map[string]any{"set": s, "ref": ref})
						}
						res.Stat("derivations", 1)
					}
				}
			}
		}
		return res
	})
}

// ---- invalid sets

type kvcase struct {
	Name string            `json:"name"`
	KV   map[string]string `json:"kv"`
}

func invalidKVs() []kvcase {
	var res []kvcase
	add := func(name string, kv map[string]string) { res = append(res, kvcase{name, kv}) }
	for _, e := range []string{"xml", "JSON", "proto ", "protobuf", "\x00"} {
		add("unknown-encoding", map[string]string{"enc": e})
		add("unknown-encoding+valid-comp", map[string]string{"enc": e, "comp": "per-message", "clevel": "6", "cwinbits": "15"})
	}
	for _, c := range []string{"gzip", "PER-MESSAGE", "context_takeover", "per-message ", "none"} {
		add("unknown-compress-type", map[string]string{"comp": c})
		add("unknown-compress-type+level", map[string]string{"enc": "json", "comp": c, "clevel": "6", "cwinbits": "15"})
	}
	for _, typ := range []string{"per-message", "context-takeover"} {
		for _, l := range []string{"-1", "10", "11", "100", "-2147483648", "2147483647"} {
			add("level-out-of-range", map[string]string{"comp": typ, "clevel": l})
			add("level-out-of-range+win", map[string]string{"enc": "proto", "comp": typ, "clevel": l, "cwinbits": "15"})
		}
		for _, w := range []string{"-1", "33", "34", "64", "-2147483648", "2147483647"} {
			add("window-out-of-range", map[string]string{"comp": typ, "cwinbits": w})
			add("window-out-of-range+level", map[string]string{"enc": "json", "comp": typ, "clevel": "6", "cwinbits": w})
		}
		for _, bad := range []string{"abc", "5x", "1.5", "0x5", " 5", "", "９"} {
			add("level-not-a-number", map[string]string{"comp": typ, "clevel": bad})
			add("window-not-a-number", map[string]string{"comp": typ, "clevel": "5", "cwinbits": bad})
		}
	}
	for _, bad := range []string{"abc", "1.5", "", "0x1"} {
		add("tgcount-not-a-number", map[string]string{"tgcount": bad})
		add("tgidx-not-a-number", map[string]string{"tgidx": bad})
	}
	for _, bad := range []string{"TRUE", "1", "yes", "", "t", "tru"} {
		add("reconnect-not-boolean", map[string]string{"reconnect": bad})
	}
	return res
}

func rejectedKV(kv map[string]string) (bool, string) {
	var p transport.NegotiationParams
	if err := p.UnmarshalKeyValues(kv); err != nil {
		return true, ""
	}
	if err := p.Validate(); err != nil {
		return true, ""
	}
	return false, show(p)
}

func encodeBinary(pairs [][2]string) []byte {
	var res []byte
	l := make([]byte, 2)
	for _, kv := range pairs {
		binary.BigEndian.PutUint16(l, uint16(len(kv[0])))
		res = append(res, l...)
		res = append(res, kv[0]...)
		binary.BigEndian.PutUint16(l, uint16(len(kv[1])))
		res = append(res, l...)
		res = append(res, kv[1]...)
	}
	return res
}

func rejectedBinary(b []byte) (bool, string) {
	var p tquic.NegotiationParams
	if err := p.Unmarshal(b); err != nil {
		return true, ""
	}
	if err := p.NegotiationParams.Validate(); err != nil {
		return true, ""
	}
	return false, show(p.NegotiationParams)
}

func rejectedURL(v url.Values) (bool, string) {
	var p tws.NegotiationParams
	e1 := p.UnmarshalURLValues(v)
	if e1 == nil {
		e1 = p.NegotiationParams.Validate()
	}
	var q twt.NegotiationParams
	e2 := q.UnmarshalURLValues(v)
	if e2 == nil {
		e2 = q.NegotiationParams.Validate()
	}
	if e1 != nil && e2 != nil {
		return true, ""
	}
	return false, show(p.NegotiationParams) + " / " + show(q.NegotiationParams)
}

func sortedPairs(kv map[string]string) [][2]string {
	var ks []string
	for k := range kv {
		ks = append(ks, k)
	}
	sort.Strings(ks)
	var res [][2]string
	for _, k := range ks {
		res = append(res, [2]string{k, kv[k]})
	}
	return res
}

// TestC17Invalid: every listed invalid set must be rejected (by the unmarshaller or by Validate) through every carrier;
// plus carrier-level malformations: duplicated keys, empty key, invalid UTF-8, truncated binary.
func TestC17Invalid(t *testing.T) {
	inv := invalidKVs()
	// carrier-level cases are appended as synthetic entries
	type extra struct {
		name string
		run  func() (bool, string, any)
	}
	var extras []extra
	validPairs := [][2]string{{"enc", "json"}, {"comp", "per-message"}, {"clevel", "6"}, {"cwinbits", "15"}, {"tid", "x"}, {"reconnect", "true"}}
	full := encodeBinary(validPairs)
	// every truncation that is not on a pair boundary
	bound := map[int]bool{0: true}
	{
		off := 0
		for _, kv := range validPairs {
			off += 4 + len(kv[0]) + len(kv[1])
			bound[off] = true
		}
	}
	for n := 1; n < len(full); n++ {
		if bound[n] {
			continue
		}
		n := n
		extras = append(extras, extra{fmt.Sprintf("binary-truncated-at-%d", n), func() (bool, string, any) {
			ok, got := rejectedBinary(full[:n])
			return ok, got, map[string]any{"bytes": fmt.Sprintf("%x", full[:n])}
		}})
	}
	for i := range validPairs {
		i := i
		extras = append(extras, extra{"binary-duplicated-key-" + validPairs[i][0], func() (bool, string, any) {
			pairs := append(append([][2]string{}, validPairs...), validPairs[i])
			ok, got := rejectedBinary(encodeBinary(pairs))
			return ok, got, map[string]any{"pairs": pairs}
		}})
		extras = append(extras, extra{"url-duplicated-key-" + validPairs[i][0], func() (bool, string, any) {
			v := url.Values{}
			for _, kv := range validPairs {
				v.Add(kv[0], kv[1])
			}
			v.Add(validPairs[i][0], validPairs[i][1])
			ok, got := rejectedURL(v)
			return ok, got, map[string]any{"values": v}
		}})
	}
	extras = append(extras, extra{"binary-empty-key", func() (bool, string, any) {
		ok, got := rejectedBinary(encodeBinary([][2]string{{"enc", "json"}, {"", "x"}}))
		return ok, got, nil
	}})
	extras = append(extras, extra{"url-empty-key", func() (bool, string, any) {
		ok, got := rejectedURL(url.Values{"enc": {"json"}, "": {"x"}})
		return ok, got, nil
	}})
	for _, bad := range []string{"\xff", "a\xc0\xaf", "\xed\xa0\x80", "ok\x80"} {
		bad := bad
		extras = append(extras, extra{"binary-invalid-utf8-key", func() (bool, string, any) {
			ok, got := rejectedBinary(encodeBinary([][2]string{{"enc", "json"}, {bad, "x"}}))
			return ok, got, map[string]any{"key": fmt.Sprintf("%x", bad)}
		}})
		extras = append(extras, extra{"binary-invalid-utf8-value", func() (bool, string, any) {
			ok, got := rejectedBinary(encodeBinary([][2]string{{"enc", "json"}, {"tid", bad}}))
			return ok, got, map[string]any{"value": fmt.Sprintf("%x", bad)}
		}})
	}
	total := len(inv) + len(extras)
	meta := vrun.Meta{Property: "C17", Workload: "TestC17Invalid", Total: total, Exhaustive: true,
		Rule: "fixed list of invalid sets (unknown encoding / compression type, level outside 0-9 and window outside 0-32 with a named type, non-numeric numbers, non-boolean reconnect) through key/value, both URL carriers and the QUIC binary form, plus carrier malformations (every truncation of a binary encoding off a pair boundary, duplicated key per field, empty key, invalid UTF-8); rejected = error from unmarshal or Validate; non-trivial = the set reached all applicable carriers",
		Assumptions: []string{"a level/window outside its range is judged only when the compression type is named (Validate's documented domain); with an empty type it is recorded as an observation"}}
	vrun.Loop(t, meta, 0, func(c *vrun.Case) vrun.Result {
		if c.Index < len(inv) {
			k := inv[c.Index]
			res := vrun.Hold(fmt.Sprintf("%s#%d", k.Name, c.Index), true)
			res.Desc = k
			if ok, got := rejectedKV(k.KV); !ok {
				return vrun.Violation("invalid set accepted through key/value map", "invalid-accepted:"+k.Name+":keyvalues", map[string]any{"kv": k.KV, "read_as": got})
			}
			v := url.Values{}
			for a, b := range k.KV {
				v.Set(a, b)
			}
			v2, err := url.ParseQuery(v.Encode())
			if err == nil {
				if ok, got := rejectedURL(v2); !ok {
					return vrun.Violation("invalid set accepted through URL values", "invalid-accepted:"+k.Name+":url", map[string]any{"kv": k.KV, "read_as": got})
				}
			}
			if ok, got := rejectedBinary(encodeBinary(sortedPairs(k.KV))); !ok {
				return vrun.Violation("invalid set accepted through QUIC binary form", "invalid-accepted:"+k.Name+":binary", map[string]any{"kv": k.KV, "read_as": got})
			}
			res.Stat("invalid_sets", 1)
			return res
		}
		x := extras[c.Index-len(inv)]
		ok, got, w := x.run()
		if !ok {
			key := x.name
			if i := strings.Index(key, "-at-"); i > 0 {
				key = key[:i]
			}
			return vrun.Violation("malformed carrier input accepted: "+x.name, "malformed-accepted:"+key, map[string]any{"input": w, "read_as": got})
		}
		res := vrun.Hold(x.name, true)
		res.Desc = map[string]any{"malformation": x.name, "input": w}
		res.Stat("malformed_inputs", 1)
		return res
	})
}

// reference reading of a key/value map, written from the documented carrier (string-typed numbers, true/false).
func refRead(kv map[string]string) (transport.NegotiationParams, bool) {
	var p transport.NegotiationParams
	num := func(s string) (int, bool) {
		if s == "" || s != strings.TrimSpace(s) {
			return 0, false
		}
		n, err := strconv.ParseInt(s, 10, 64)
		if err != nil || strconv.FormatInt(n, 10) != s || n > 1<<31-1 || n < -(1<<31) {
			return 0, false
		}
		return int(n), true
	}
	for k, v := range kv {
		switch k {
		case "enc":
			p.Encoding = transport.EncodingName(v)
		case "comp":
			p.Compress = compress.Type(v)
		case "clevel":
			n, ok := num(v)
			if !ok {
				return p, false
			}
			p.CompressLevel = &n
		case "cwinbits":
			n, ok := num(v)
			if !ok {
				return p, false
			}
			p.CompressWindowBits = &n
		case "tid":
			p.TransportID = transport.TransportID(v)
		case "tgid":
			p.TransportGroupID = transport.TransportGroupID(v)
		case "tgcount":
			n, ok := num(v)
			if !ok {
				return p, false
			}
			p.TransportGroupTotalCount = n
		case "tgidx":
			n, ok := num(v)
			if !ok {
				return p, false
			}
			p.TransportGroupIndex = n
		case "reconnect":
			if v != "true" && v != "false" {
				return p, false
			}
			p.Reconnect = v == "true"
		}
	}
	return p, true
}

func refValid(p transport.NegotiationParams) bool {
	switch p.Encoding {
	case "", "json", "proto":
	default:
		return false
	}
	switch p.Compress {
	case "":
		return true
	case "per-message", "context-takeover":
	default:
		return false
	}
	if p.CompressLevel != nil && (*p.CompressLevel < 0 || *p.CompressLevel > 9) {
		return false
	}
	if p.CompressWindowBits != nil && (*p.CompressWindowBits < 0 || *p.CompressWindowBits > 32) {
		return false
	}
	return true
}

var valuePool = map[string][]string{
	"enc":       {"", "json", "proto", "xml", "Json"},
	"comp":      {"", "per-message", "context-takeover", "zstd", "per-message\n"},
	"clevel":    {"0", "1", "6", "9", "10", "-1", "x", "", "007", "1e0", "3.0", "99999999999"},
	"cwinbits":  {"0", "8", "15", "32", "33", "-1", "y", "", "+8"},
	"tid":       {"", "a", "日本", "a b&c=d", "\u0000"},
	"tgid":      {"", "g", "ｇ"},
	"tgcount":   {"0", "1", "2", "-3", "z", "1.0"},
	"tgidx":     {"0", "1", "7", "q", ""},
	"reconnect": {"true", "false", "True", "0", ""},
	"unknown":   {"", "v"},
}

// TestC17RandomMaps: arbitrary key/value maps. If the library accepts a map it must have read every known field
// exactly as the reference reader does, and the result must be a valid set; a map the reference reader considers
// well-formed and valid must be accepted.
func TestC17RandomMaps(t *testing.T) {
	e := vrun.LoadEnv()
	total := e.Pick(400, 6000)
	meta := vrun.Meta{Property: "C17", Workload: "TestC17RandomMaps", Total: total,
		Rule: "each case draws 40 key/value maps (keys from the 9 known names plus an unknown one, values from pools mixing valid, out-of-range and malformed text) and sends each through key/value, URL and binary carriers; oracle: accepted => equal to an independent reference reading and valid; reference-valid => accepted; non-trivial = the case saw at least one accepted and one rejected map; distinct by multiset of key sets",
		Assumptions: []string{"unknown key names are ignored by the library and are not judged", "numbers that are not canonical base-10 text may be rejected or read with their numeric value"}}
	vrun.Loop(t, meta, 0, func(c *vrun.Case) vrun.Result {
		keys := []string{"enc", "comp", "clevel", "cwinbits", "tid", "tgid", "tgcount", "tgidx", "reconnect", "unknown"}
		var acc, rej int
		sigparts := map[string]bool{}
		var sample any
		for i := 0; i < 40; i++ {
			kv := map[string]string{}
			for _, k := range keys {
				if c.Rng.Intn(100) < 45 {
					pool := valuePool[k]
					kv[k] = pool[c.Rng.Intn(len(pool))]
				}
			}
			if i == 0 {
				sample = kv
			}
			ref, wellformed := refRead(kv)
			type outcome struct {
				name string
				p    transport.NegotiationParams
				err  error
			}
			var outs []outcome
			{
				var p transport.NegotiationParams
				err := p.UnmarshalKeyValues(kv)
				if err == nil {
					err = p.Validate()
				}
				outs = append(outs, outcome{"keyvalues", p, err})
			}
			{
				v := url.Values{}
				for a, b := range kv {
					v.Set(a, b)
				}
				v2, _ := url.ParseQuery(v.Encode())
				var p tws.NegotiationParams
				err := p.UnmarshalURLValues(v2)
				if err == nil {
					err = p.NegotiationParams.Validate()
				}
				outs = append(outs, outcome{"websocket-url", p.NegotiationParams, err})
			}
			{
				var p tquic.NegotiationParams
				err := p.Unmarshal(encodeBinary(sortedPairs(kv)))
				if err == nil {
					err = p.NegotiationParams.Validate()
				}
				outs = append(outs, outcome{"quic-binary", p.NegotiationParams, err})
			}
			for _, o := range outs {
				if o.name == "quic-binary" {
					// the binary form refuses invalid UTF-8 and empty keys by itself; the pools contain neither
					for k, v := range kv {
						if !utf8.ValidString(k) || !utf8.ValidString(v) {
							continue
						}
					}
				}
				if o.err == nil {
					acc++
					// Validate fills in the default level; mirror that in the reference
					r := ref
					if wellformed && r.Compress != "" && r.CompressLevel == nil {
						d := transport.DefaultCompressionLevel
						r.CompressLevel = &d
					}
					if !wellformed {
						// accepted although a number/boolean is not canonical text: tolerated only if the numeric value is what a lenient reader would produce
						if !lenientEqual(kv, o.p) {
							return vrun.Violation("malformed map accepted and misread via "+o.name, "random-map-misread:"+o.name, map[string]any{"kv": kv, "read_as": show(o.p)})
						}
						continue
					}
					if !eqParams(r, o.p) {
						return vrun.Violation("accepted map read differently from the reference reader via "+o.name, "random-map-differs:"+o.name, map[string]any{"kv": kv, "read_as": show(o.p), "reference": show(r)})
					}
					if !refValid(o.p) {
						return vrun.Violation("invalid set accepted via "+o.name, "random-invalid-accepted:"+o.name, map[string]any{"kv": kv, "read_as": show(o.p)})
					}
				} else {
					rej++
					if wellformed && refValid(ref) {
						return vrun.Violation("valid set rejected via "+o.name, "random-valid-rejected:"+o.name, map[string]any{"kv": kv, "err": o.err.Error()})
					}
				}
			}
			var ks []string
			for k := range kv {
				ks = append(ks, k)
			}
			sort.Strings(ks)
			sigparts[strings.Join(ks, ",")] = true
		}
		var sp []string
		for k := range sigparts {
			sp = append(sp, k)
		}
		sort.Strings(sp)
		res := vrun.Hold(fmt.Sprintf("%x", hash(strings.Join(sp, "|"))), acc > 0 && rej > 0)
		res.Desc = map[string]any{"first_map": sample, "maps": 40}
		res.Stat("maps", 40)
		res.Stat("accepted_readings", int64(acc))
		res.Stat("rejected_readings", int64(rej))
		return res
	})
}

// lenientEqual: every numeric/boolean field the library produced equals the value a tolerant reader (ParseFloat/ParseBool-free:
// strconv.Atoi after trimming a leading '+' or zeros) would produce; used only for maps with non-canonical numbers.
func lenientEqual(kv map[string]string, p transport.NegotiationParams) bool {
	chk := func(s string, got int) bool {
		f, err := strconv.ParseFloat(strings.TrimSpace(s), 64)
		return err == nil && f == float64(got)
	}
	if v, ok := kv["clevel"]; ok {
		if p.CompressLevel == nil || !chk(v, *p.CompressLevel) {
			return false
		}
	}
	if v, ok := kv["cwinbits"]; ok {
		if p.CompressWindowBits == nil || !chk(v, *p.CompressWindowBits) {
			return false
		}
	}
	if v, ok := kv["tgcount"]; ok && !chk(v, p.TransportGroupTotalCount) {
		return false
	}
	if v, ok := kv["tgidx"]; ok && !chk(v, p.TransportGroupIndex) {
		return false
	}
	if v, ok := kv["reconnect"]; ok && (v != "true" && v != "false") {
		return false
	}
	return refValid(p)
}

func hash(s string) uint64 {
	var h uint64 = 1469598103934665603
	for i := 0; i < len(s); i++ {
		h ^= uint64(s[i])
		h *= 1099511628211
	}
	return h
}

// TestC17RandomBytes: arbitrary byte strings for the binary reader: never a panic; if accepted, re-marshalling the
// result and reading it again yields the same set (self-consistency), and the set is valid.
func TestC17RandomBytes(t *testing.T) {
	e := vrun.LoadEnv()
	total := e.Pick(300, 5000)
	valid := encodeBinary([][2]string{{"enc", "proto"}, {"comp", "context-takeover"}, {"clevel", "9"}, {"cwinbits", "32"}, {"tid", "id"}, {"reconnect", "false"}, {"tgid", "g"}, {"tgcount", "2"}, {"tgidx", "1"}})
	meta := vrun.Meta{Property: "C17", Workload: "TestC17RandomBytes", Total: total,
		Rule: "each case feeds 200 byte strings to the QUIC binary reader: mutations of a valid encoding (bit flips, byte inserts/deletes, length-prefix edits, truncations) and pure random bytes of length 0..64; oracle: no panic; accepted => valid set and stable under marshal/unmarshal; non-trivial = at least one accepted and one rejected input in the case; distinct by case seed",
	}
	vrun.Loop(t, meta, 0, func(c *vrun.Case) vrun.Result {
		var acc, rej int
		for i := 0; i < 200; i++ {
			var b []byte
			if c.Rng.Intn(4) == 0 {
				b = make([]byte, c.Rng.Intn(65))
				c.Rng.Read(b)
			} else {
				b = append([]byte{}, valid...)
				for m := c.Rng.Intn(3); m >= 0 && len(b) > 0; m-- {
					switch c.Rng.Intn(5) {
					case 0:
						b[c.Rng.Intn(len(b))] ^= 1 << uint(c.Rng.Intn(8))
					case 1:
						j := c.Rng.Intn(len(b))
						b = append(b[:j], b[j+1:]...)
					case 2:
						j := c.Rng.Intn(len(b) + 1)
						b = append(b[:j], append([]byte{byte(c.Rng.Intn(256))}, b[j:]...)...)
					case 3:
						b = b[:c.Rng.Intn(len(b)+1)]
					case 4:
						if i%7 == 0 {
							// leave as is: the valid encoding itself
						}
					}
				}
			}
			var p tquic.NegotiationParams
			err := p.Unmarshal(b)
			if err == nil {
				err = p.NegotiationParams.Validate()
			}
			if err != nil {
				rej++
				continue
			}
			acc++
			if !refValid(p.NegotiationParams) {
				return vrun.Violation("binary reader accepted an invalid set", "bytes-invalid-accepted", map[string]any{"bytes": fmt.Sprintf("%x", b), "read_as": show(p.NegotiationParams)})
			}
			b2, err := p.Marshal()
			if err != nil {
				return vrun.Violation("accepted set cannot be marshalled again", "bytes-remarshal-error", map[string]any{"bytes": fmt.Sprintf("%x", b), "err": err.Error()})
			}
			var q tquic.NegotiationParams
			if err := q.Unmarshal(b2); err != nil || !eqParams(p.NegotiationParams, q.NegotiationParams) {
				return vrun.Violation("accepted set is not stable under marshal/unmarshal", "bytes-unstable", map[string]any{"bytes": fmt.Sprintf("%x", b), "first": show(p.NegotiationParams), "second": show(q.NegotiationParams)})
			}
		}
		res := vrun.Hold(fmt.Sprintf("seed%d", c.Seed), acc > 0 && rej > 0)
		res.Desc = map[string]any{"inputs": 200, "accepted": acc, "rejected": rej}
		res.Stat("byte_strings", 200)
		res.Stat("accepted_bytes", int64(acc))
		return res
	})
}

var _ = reflect.DeepEqual

// ---- what the library's dialers produce

// TestC17Dialer enumerates the DialConfig grid. Every dialer of the library builds its parameter set with
// DialConfig.NegotiationParams and derives its own compression settings from that set and its own configuration; the
// accepting end derives its settings from the set it decoded and *its* defaults. The property's parenthesis ("as every
// dialer of the library produces") is judged here: the set names type, level and window, survives every carrier, and both
// ends arrive at the same mode, level and window whatever the acceptor's base configuration is.
func TestC17Dialer(t *testing.T) {
	type cell struct {
		enc    int
		enable bool
		dct    bool
		level  int
	}
	dencs := []transport.EncodingName{transport.EncodingNameJSON, transport.EncodingNameProtobuf}
	dwins := []int{0, 1, 8, 15, 32}
	var cells []cell
	for e := range dencs {
		for _, en := range []bool{false, true} {
			for _, dct := range []bool{false, true} {
				for l := 0; l <= 9; l++ {
					cells = append(cells, cell{e, en, dct, l})
				}
			}
		}
	}
	meta := vrun.Meta{Property: "C17", Workload: "TestC17Dialer", Total: len(cells), Exhaustive: true,
		Rule: "exhaustive grid encoding{json,proto} x Enable x DisableContextTakeover x Level 0..9; each case sweeps WindowBits{0,1,8,15,32} x reconnect x 5 group-field variants: DialConfig.NegotiationParams must name type, level and window, pass Validate, survive the four carriers, and the configuration the acceptor derives (four base configurations) must equal the one the dialer derives from its own configuration; all cases are distinct; non-trivial = every set of the cell was derived on both ends",
		Assumptions: []string{"the dialer derives its settings as the library's dialers do: params.CompressConfig(dialConfig.CompressConfig)", "two disabled configurations are equal whatever their other fields say"}}
	vrun.Loop(t, meta, 0, func(c *vrun.Case) vrun.Result {
		cl := cells[c.Index]
		res := vrun.Hold(fmt.Sprintf("dial:enc=%q,enable=%v,dct=%v,level=%d", dencs[cl.enc], cl.enable, cl.dct, cl.level), true)
		res.Desc = map[string]any{"enc": dencs[cl.enc], "enable": cl.enable, "dct": cl.dct, "level": cl.level, "windows": "0,1,8,15,32"}
		for _, w := range dwins {
			for _, rc := range []bool{false, true} {
				for _, g := range groups {
					dc := transport.DialConfig{Address: "example.com:443", EncodingName: dencs[cl.enc],
						CompressConfig: compress.Config{Enable: cl.enable, Level: cl.level, DisableContextTakeover: cl.dct, WindowBits: w},
						TransportID:    transport.TransportID(g.TID), Reconnect: rc,
						TransportGroupID: transport.TransportGroupID(g.TGID), TransportGroupTotalCount: g.TGCount, TransportGroupIndex: g.TGIdx}
					p := dc.NegotiationParams()
					desc := map[string]any{"dial_config": fmt.Sprintf("%+v", dc), "params": show(p)}
					if p.Compress == "" || p.CompressLevel == nil || p.CompressWindowBits == nil {
						return vrun.Violation("a dialer's parameter set does not name its compression type, level and window", "dialer-params-unnamed", desc)
					}
					wantType := compress.TypeContextTakeOver
					if cl.dct {
						wantType = compress.TypePerMessage
					}
					if p.Compress != wantType || *p.CompressLevel != cl.level || *p.CompressWindowBits != w || p.Encoding != dencs[cl.enc] || p.Reconnect != rc ||
						string(p.TransportID) != g.TID || string(p.TransportGroupID) != g.TGID || p.TransportGroupTotalCount != g.TGCount || p.TransportGroupIndex != g.TGIdx {
						return vrun.Violation("a dialer's parameter set differs from its configuration", "dialer-params-wrong", desc)
					}
					pv := p
					lv, wb := *p.CompressLevel, *p.CompressWindowBits
					pv.CompressLevel, pv.CompressWindowBits = &lv, &wb
					if err := pv.Validate(); err != nil {
						desc["err"] = err.Error()
						return vrun.Violation("a dialer's parameter set is refused by Validate", "dialer-params-refused", desc)
					}
					mine := p.CompressConfig(dc.CompressConfig)
					for _, car := range carriers {
						q, err := car.rt(p)
						if err != nil {
							desc["err"] = err.Error()
							return vrun.Violation("a dialer's parameter set does not survive carrier "+car.name, "dialer-roundtrip-error:"+car.name, desc)
						}
						if err := q.Validate(); err != nil {
							desc["err"] = err.Error()
							return vrun.Violation("the acceptor refuses a dialer's parameter set after carrier "+car.name, "dialer-roundtrip-refused:"+car.name, desc)
						}
						for _, b := range bases {
							theirs := q.CompressConfig(b)
							if theirs.Enable != mine.Enable || (mine.Enable && (theirs.Level != mine.Level || theirs.WindowBits != mine.WindowBits || theirs.DisableContextTakeover != mine.DisableContextTakeover)) {
								desc["carrier"], desc["acceptor_base"], desc["dialer"], desc["acceptor"] = car.name, fmt.Sprintf("%+v", b), fmt.Sprintf("%+v", mine), fmt.Sprintf("%+v", theirs)
								return vrun.Violation("dialer and acceptor derive different compression settings", "dialer-acceptor-differ:"+car.name, desc)
							}
							res.Stat("derivations", 1)
						}
					}
					res.Stat("sets", 1)
				}
			}
		}
		return res
	})
}
