// Package reconlib is the outage/reconnect/resume scenario engine shared by C05, C02 and C07 (virtual time).
package reconlib

import (
	"context"
	"errors"
	"fmt"
	"os"
	"sort"
	"strings"
	"sync"
	"sync/atomic"
	"testing/synctest"
	"time"

	iscperrors "github.com/aptpod/iscp-go/errors"
	"github.com/aptpod/iscp-go/iscp"
	"github.com/aptpod/iscp-go/log"
	"github.com/aptpod/iscp-go/message"
	"github.com/google/uuid"

	"verif/harness/broker"
	"verif/harness/memnet"
	"verif/harness/uplib"
	"verif/harness/vrun"
	"verif/harness/world"
)

type UpSpec struct {
	QoS    string `json:"qos"`
	Flush  string `json:"flush"` // immediate | size64
	Writes int    `json:"writes_phase_a"`
	// AckTimeoutMs configures WithUpstreamAckTimeout (0 = library default: no ack timeout).
	AckTimeoutMs int `json:"ack_timeout_ms,omitempty"`
	// CloseEarly: the application calls Close right after its phase-A writes (acks partly withheld, the armed fault
	// possibly among those chunks): the drain wait of Close spans the outage. CloseTimeoutMs: close timeout (default 5 s).
	CloseEarly     bool `json:"close_right_after_phase_a,omitempty"`
	CloseTimeoutMs int  `json:"close_timeout_ms,omitempty"`
}

type DownSpec struct {
	QoS string `json:"qos"`
}

// Fault is one injected transport failure plus how the broker/network behaves for the following recovery.
type Fault struct {
	Trigger         memnet.Trigger   `json:"trigger"`
	DialErrors      int              `json:"dial_errors"`                     // the next n dials fail
	DialDelayMs     int              `json:"dial_delay_ms"`                   // every following dial takes this long
	ResumeConflicts int              `json:"resume_conflicts"`                // conflict answers before the resume succeeds (every upstream)
	DownConflicts   int              `json:"down_resume_conflicts,omitempty"` // conflict answers before the resume succeeds (every downstream)
	RefuseResumeOf  int              `json:"refuse_resume_of"`                // index+1 of the upstream whose resume is refused (0 = none)
	CutResumeOf     int              `json:"cut_resume_of"`                   // index+1 of the upstream whose resume exchange is cut (0 = none)
	NextLink        []memnet.Trigger `json:"next_link_triggers,omitempty"`    // armed on the link of the following redial (handshake / resume exchange)
}

type Scenario struct {
	Ups          []UpSpec   `json:"upstreams"`
	Downs        []DownSpec `json:"downstreams"`
	OutageCalls  []string   `json:"calls_issued_during_outage"`
	Faults       []Fault    `json:"faults"`
	AckHoldMod   int        `json:"ack_withhold_every_nth"` // acks of chunks with seq % n == 0 are withheld until recovery (0 = never)
	Storage      string     `json:"sent_storage"`           // "default" | "payload"
	WritesB      int        `json:"writes_phase_b"`
	PingMs       int        `json:"ping_ms"`
	DuringWrites int        `json:"writes_during_outage"`
	// SlowLog: the application's logger takes SlowLogMs (virtual) for every message whose format starts with this text
	// (a logger may block - file, network, a mutex of the application); the listed sites hold no library lock.
	SlowLog   string `json:"slow_logger_at,omitempty"`
	SlowLogMs int    `json:"slow_logger_ms,omitempty"`
	// SlowHandler: the application's connection-level event handler ("disconnected" | "reconnected") takes SlowHandlerMs
	// (virtual); the library calls these handlers inline in its reconnect loop.
	// CloseFails: the transport's Close reports an error after closing ("broken": on a broken link only).
	CloseFails string `json:"transport_close_reports_error,omitempty"`
	// AliasFromZero: the broker hands out upstream stream aliases from 0 on every connection (a legal value, and the
	// value a refused response carries)
	AliasFromZero bool   `json:"upstream_aliases_from_zero,omitempty"`
	SlowHandler   string `json:"slow_event_handler,omitempty"`
	// Census: after everything was closed (client and broker side) wait five virtual minutes and list the library
	// goroutines that are still alive in the bubble.
	Census        bool `json:"goroutine_census_after_close,omitempty"`
	SlowHandlerMs int  `json:"slow_event_handler_ms,omitempty"`
}

// SlowLogSites are log calls of the library that sit between two steps of the reconnect / resume procedure.
var SlowLogSites = []string{"Succeeded in resuming upstream", "Succeeded in resuming downstream", "Wait until connected", "Try reconnecting", "Reconnected"}

// NewSlowLogger returns a logger that blocks for d at every message whose format starts with prefix.
func NewSlowLogger(prefix string, d time.Duration) log.Logger {
	return &slowLogger{prefix: prefix, d: d}
}

type slowLogger struct {
	prefix string
	d      time.Duration
}

func (l *slowLogger) hit(f string) {
	if strings.HasPrefix(f, l.prefix) {
		time.Sleep(l.d)
	}
}
func (l *slowLogger) Infof(_ context.Context, f string, _ ...any)  { l.hit(f) }
func (l *slowLogger) Warnf(_ context.Context, f string, _ ...any)  { l.hit(f) }
func (l *slowLogger) Errorf(_ context.Context, f string, _ ...any) { l.hit(f) }
func (l *slowLogger) Debugf(_ context.Context, f string, _ ...any) { l.hit(f) }

type CallRes struct {
	Name          string
	Err           string
	ConnClosedErr bool
	CtxErr        bool
	Returned      bool
}

type UpOutcome struct {
	Spec              UpSpec
	ID                uuid.UUID
	Rec               *uplib.Recorder
	State             broker.UpState
	CloseErr          string
	ProbeOK           bool
	ProbeErr          string
	Resumed           int
	ClosedErrs        []string
	WriteStreamClosed bool
	ClosedEarly       bool    // Close was called right after phase A (Spec.CloseEarly) and has returned
	EarlyCloseSecs    float64 // how long that Close took (virtual)
}

type DownOutcome struct {
	Spec             DownSpec
	ID               uuid.UUID
	Alias            uint32
	State            broker.DownState
	Resumed          int
	ClosedErrs       []string
	ProbeOK          bool
	ProbeErr         string
	CloseErr         string
	ReadStreamClosed bool
	Consumed         []uint32 // sequence numbers of the chunks ReadDataPoints returned, in order
}

type Outcome struct {
	S             Scenario
	Ups           []*UpOutcome
	Downs         []*DownOutcome
	Calls         []CallRes
	Disconnected  int
	RecoverySecs  []float64 // virtual seconds from each fault to the completed recovery
	Reconnected   int
	Tokens        []string // tokens produced by the token source, in order
	ConnectTokens []string // tokens seen in ConnectRequests, per link, in order
	Links         int
	Dials         int
	Ledger        []broker.Entry
	Trace         []string // client->broker message classes on link 1 (fault-free base trace)
	FaultsFired   int
	Recovered     bool
	RecoverNote   string
	Notes         []string
	StorageHist   []StorageOp
	RefusedUps    []uuid.UUID          // resumes the broker actually refused
	CutUps        []uuid.UUID          // resume exchanges actually cut
	AllUpIDs      []uuid.UUID          // every upstream id the broker ever assigned
	AllDownAlias  map[uuid.UUID]uint32 // every downstream the broker ever registered: id -> alias
	LinkInfos     []LinkInfo
	// Leftover: innermost library function <- creator of every library goroutine alive after the census wait
	Leftover      []string
	LeftoverFirst string
	DialStacks    []string
}

// LinkInfo is the transport-boundary view of one link incarnation.
type LinkInfo struct {
	ID       int
	Mode     memnet.Mode
	Log      []memnet.Record
	FailedVT time.Time // zero while healthy
}

// ResumeCompleted reports whether the stream's resume exchange finished on the given link: the client wrote a resume
// request for the stream and read a successful response with the same request id.
func (o *Outcome) ResumeCompleted(stream uuid.UUID, link int) bool {
	return o.resumeCompleted(stream, link, true)
}

// ResumeResponseRead is the weaker predicate: the client's transport read a successful resume response for the stream on
// that link, possibly at the very instant the link died.
func (o *Outcome) ResumeResponseRead(stream uuid.UUID, link int) bool {
	return o.resumeCompleted(stream, link, false)
}

func (o *Outcome) resumeCompleted(stream uuid.UUID, link int, strict bool) bool {
	for _, li := range o.LinkInfos {
		if li.ID != link {
			continue
		}
		// two passes: the log appends a write record after the message is already on its way, so the response may be
		// logged before the request
		reqs := map[uint32]bool{}
		for _, r := range li.Log {
			if r.Dir == memnet.C2S && r.OK {
				switch m := r.Msg.(type) {
				case *message.UpstreamResumeRequest:
					if m.StreamID == stream {
						reqs[uint32(m.RequestID)] = true
					}
				case *message.DownstreamResumeRequest:
					if m.StreamID == stream {
						reqs[uint32(m.RequestID)] = true
					}
				}
			}
		}
		for _, r := range li.Log {
			if r.Dir == memnet.S2C && r.OK {
				// A response read at the very (virtual) instant the link died does not count: whether the client finished
				// the exchange (registered the stream on that connection) before the connection went away is a matter of
				// scheduling the transport log cannot see - for the client that exchange may have been cut.
				if strict && !li.FailedVT.IsZero() && !r.VT.Before(li.FailedVT) {
					continue
				}
				switch m := r.Msg.(type) {
				case *message.UpstreamResumeResponse:
					if reqs[uint32(m.RequestID)] && m.ResultCode == message.ResultCodeSucceeded {
						return true
					}
				case *message.DownstreamResumeResponse:
					if reqs[uint32(m.RequestID)] && m.ResultCode == message.ResultCodeSucceeded {
						return true
					}
				}
			}
		}
	}
	return false
}

// ResumeInterrupted reports whether some link after the first one failed before the stream had completed its resume on it.
func (o *Outcome) ResumeInterrupted(stream uuid.UUID) bool {
	for _, li := range o.LinkInfos {
		if li.ID >= 2 && li.Mode != memnet.Healthy && !o.ResumeCompleted(stream, li.ID) {
			return true
		}
	}
	return false
}

// StorageOp is one call on the sent storage as seen by the recording wrapper.
type StorageOp struct {
	Call   int64
	T      int64 // return time
	Op     string
	Stream uuid.UUID
	Seq    uint32
	N      int // result size for List
	Seqs   []uint32
	Err    string
}

type recStorage struct {
	inner iscp.VerifSentStorage
	clk   *memnet.Clock
	mu    sync.Mutex
	hist  []StorageOp
}

func (s *recStorage) add(o StorageOp) {
	o.T = s.clk.Tick()
	s.mu.Lock()
	s.hist = append(s.hist, o)
	s.mu.Unlock()
}

func (s *recStorage) Store(ctx context.Context, id uuid.UUID, seq uint32, dps iscp.DataPointGroups) error {
	c := s.clk.Tick()
	err := s.inner.Store(ctx, id, seq, dps)
	s.add(StorageOp{Call: c, Op: "store", Stream: id, Seq: seq, Err: es(err)})
	return err
}

func (s *recStorage) Remove(ctx context.Context, id uuid.UUID, seq uint32) (iscp.DataPointGroups, error) {
	c := s.clk.Tick()
	r, err := s.inner.Remove(ctx, id, seq)
	s.add(StorageOp{Call: c, Op: "remove", Stream: id, Seq: seq, Err: es(err)})
	return r, err
}

func (s *recStorage) List(ctx context.Context, id uuid.UUID) (map[uint32]iscp.DataPointGroups, error) {
	c := s.clk.Tick()
	r, err := s.inner.List(ctx, id)
	o := StorageOp{Call: c, Op: "list", Stream: id, N: len(r), Err: es(err)}
	for k := range r {
		o.Seqs = append(o.Seqs, k)
	}
	s.add(o)
	return r, err
}

func (s *recStorage) Clear(ctx context.Context, id uuid.UUID) error {
	c := s.clk.Tick()
	err := s.inner.Clear(ctx, id)
	s.add(StorageOp{Call: c, Op: "clear", Stream: id, Err: es(err)})
	return err
}

func es(err error) string {
	if err == nil {
		return ""
	}
	return err.Error()
}

func qos(s string) message.QoS {
	switch s {
	case "reliable":
		return message.QoSReliable
	case "partial":
		return message.QoSPartial
	}
	return message.QoSUnreliable
}

const (
	callT    = 60 * time.Second
	recoverT = 120 * time.Second
)

// Run executes the scenario. It must be called inside a synctest bubble.
func Run(s Scenario) *Outcome {
	o := &Outcome{S: s}
	w := world.New()
	w.Net.DebugDial = os.Getenv("VERIF_DEBUG_DIAL") != ""
	var mu sync.Mutex
	var tokN atomic.Int64
	var ackAll atomic.Bool
	type held struct {
		us  *broker.UpState
		seq uint32
	}
	var heldAcks []held
	var refuseID, cutID uuid.UUID
	var resumeRefuse, resumeCut atomic.Bool
	w.B.P.Ack = broker.AckManual
	w.B.OnMsg = func(lc *broker.LinkCtx, m message.Message, unrel bool) bool {
		switch t := m.(type) {
		case *message.UpstreamChunk:
			us, rec := lc.RecordChunk(t, unrel)
			if us == nil {
				return true
			}
			if s.AckHoldMod > 0 && rec.Seq%uint32(s.AckHoldMod) == 0 && !ackAll.Load() {
				mu.Lock()
				heldAcks = append(heldAcks, held{us, rec.Seq})
				mu.Unlock()
				return true
			}
			lc.SendAck(us, []*message.UpstreamChunkResult{{SequenceNumber: rec.Seq, ResultCode: message.ResultCodeSucceeded, ResultString: "OK"}})
			return true
		case *message.UpstreamResumeRequest:
			if resumeRefuse.Load() && t.StreamID == refuseID {
				resumeRefuse.Store(false)
				mu.Lock()
				o.RefusedUps = append(o.RefusedUps, t.StreamID)
				mu.Unlock()
				lc.Send(&message.UpstreamResumeResponse{RequestID: t.RequestID, ResultCode: message.ResultCodeStreamNotFound, ResultString: "refused by the scenario"})
				return true
			}
			if resumeCut.Load() && t.StreamID == cutID {
				resumeCut.Store(false)
				mu.Lock()
				o.CutUps = append(o.CutUps, t.StreamID)
				mu.Unlock()
				lc.L.Fail(memnet.Sever)
				return true
			}
		case *message.UpstreamCall:
			lc.Send(&message.UpstreamCallAck{CallID: t.CallID, ResultCode: message.ResultCodeSucceeded, ResultString: "OK"})
			if t.Name == "wait" {
				lc.Send(&message.DownstreamCall{CallID: "r-" + t.CallID, RequestCallID: t.CallID, SourceNodeID: "peer", Name: "reply", Type: "t", Payload: t.Payload})
			}
			return true
		}
		return false
	}
	w.Start()
	var disc, recon atomic.Int64
	opts := []iscp.ConnOption{
		iscp.WithConnPingInterval(time.Duration(s.PingMs) * time.Millisecond), iscp.WithConnPingTimeout(time.Duration(s.PingMs) * time.Millisecond),
		iscp.WithConnTokenSource(iscp.TokenSourceFunc(func() (iscp.Token, error) {
			n := tokN.Add(1)
			tk := fmt.Sprintf("tok-%d", n)
			mu.Lock()
			o.Tokens = append(o.Tokens, tk)
			mu.Unlock()
			return iscp.Token(tk), nil
		})),
		iscp.WithConnDisconnectedEventHandler(iscp.DisconnectedEventHandlerFunc(func(*iscp.DisconnectedEvent) {
			disc.Add(1)
			if s.SlowHandler == "disconnected" {
				time.Sleep(time.Duration(s.SlowHandlerMs) * time.Millisecond)
			}
		})),
		iscp.WithConnReconnectedEventHandler(iscp.ReconnectedEventHandlerFunc(func(*iscp.ReconnectedEvent) {
			recon.Add(1)
			if s.SlowHandler == "reconnected" {
				time.Sleep(time.Duration(s.SlowHandlerMs) * time.Millisecond)
			}
		})),
	}
	if os.Getenv("VERIF_DEBUG") != "" {
		opts = append(opts, iscp.WithConnLogger(log.NewStd()))
	} else if s.SlowLog != "" {
		opts = append(opts, iscp.WithConnLogger(&slowLogger{prefix: s.SlowLog, d: time.Duration(s.SlowLogMs) * time.Millisecond}))
	}
	var store *recStorage
	{
		var inner iscp.VerifSentStorage
		if s.Storage == "payload" {
			inner = iscp.VerifNewInmemSentStorage()
		} else {
			inner = iscp.VerifNewInmemSentStorageNoPayload()
		}
		if s.Storage != "library-default" {
			store = &recStorage{inner: inner, clk: w.Clock}
			opts = append(opts, iscp.VerifWithSentStorage(store))
		}
	}
	w.Net.CloseFails = s.CloseFails
	w.B.P.UpAliasFromZero = s.AliasFromZero
	slowLogSlack := 4*time.Duration(s.SlowLogMs)*time.Millisecond + 4*time.Duration(s.SlowHandlerMs)*time.Millisecond
	conn, err := w.Connect(opts...)
	if err != nil {
		o.Notes = append(o.Notes, "connect: "+err.Error())
		w.Close()
		return o
	}
	bg := context.Background()
	id := message.DataID{Name: "d", Type: "t"}

	// open streams
	type upRT struct {
		up           *iscp.Upstream
		out          *UpOutcome
		writers      atomic.Int64 // every writer goroutine gets its own writer id: order is only defined per writer
		resumed      atomic.Int64
		streamClosed atomic.Bool
		closing      atomic.Bool // CloseEarly: Close has been called - the application writes no more
	}
	var ups []*upRT
	for i, us := range s.Ups {
		u := &upRT{out: &UpOutcome{Spec: us}}
		rec := uplib.NewRecorder(w.Clock)
		u.out.Rec = rec
		closeTO := 5 * time.Second
		if us.CloseTimeoutMs > 0 {
			closeTO = time.Duration(us.CloseTimeoutMs) * time.Millisecond
		}
		uo := append(rec.Options(), iscp.WithUpstreamQoS(qos(us.QoS)), iscp.WithUpstreamCloseTimeout(closeTO))
		if us.AckTimeoutMs > 0 {
			uo = append(uo, iscp.WithUpstreamAckTimeout(time.Duration(us.AckTimeoutMs)*time.Millisecond))
		}
		if us.Flush == "size64" {
			uo = append(uo, iscp.WithUpstreamFlushPolicyBufferSizeOnly(64))
		} else {
			uo = append(uo, iscp.WithUpstreamFlushPolicyImmediately())
		}
		// Recorder installs closed/resumed handlers; wrap them to count as well
		ctx, c := context.WithTimeout(bg, callT)
		up, err := conn.OpenUpstream(ctx, fmt.Sprintf("up-%d", i), uo...)
		c()
		if err != nil {
			o.Notes = append(o.Notes, fmt.Sprintf("open upstream %d: %v", i, err))
			continue
		}
		u.up = up
		u.out.ID = up.ID
		ups = append(ups, u)
		o.Ups = append(o.Ups, u.out)
	}
	type downRT struct {
		d        *iscp.Downstream
		out      *DownOutcome
		resumed  atomic.Int64
		closedMu sync.Mutex
	}
	var downs []*downRT
	for i, dsp := range s.Downs {
		d := &downRT{out: &DownOutcome{Spec: dsp}}
		ctx, c := context.WithTimeout(bg, callT)
		down, err := conn.OpenDownstream(ctx, []*message.DownstreamFilter{{SourceNodeID: "src", DataFilters: []*message.DataFilter{{Name: "#", Type: "#"}}}},
			iscp.WithDownstreamQoS(qos(dsp.QoS)), iscp.WithDownstreamAckFlushInterval(20*time.Millisecond),
			iscp.WithDownstreamResumedEventHandler(iscp.DownstreamResumedEventHandlerFunc(func(*iscp.DownstreamResumedEvent) { d.resumed.Add(1) })),
			iscp.WithDownstreamClosedEventHandler(iscp.DownstreamClosedEventHandlerFunc(func(ev *iscp.DownstreamClosedEvent) {
				e := ""
				if ev.Err != nil {
					e = ev.Err.Error()
				}
				d.closedMu.Lock()
				d.out.ClosedErrs = append(d.out.ClosedErrs, e)
				d.closedMu.Unlock()
			})))
		c()
		if err != nil {
			o.Notes = append(o.Notes, fmt.Sprintf("open downstream %d: %v", i, err))
			continue
		}
		d.d = down
		d.out.ID = down.ID
		downs = append(downs, d)
		o.Downs = append(o.Downs, d.out)
	}
	for i, ds := range w.B.Downs() {
		if i < len(downs) {
			downs[i].out.Alias = ds.Alias
		}
	}
	// arm faults (first one now; later ones when the previous outage is over)
	faultIdx := 0
	arm := func() bool {
		if faultIdx >= len(s.Faults) {
			return false
		}
		f := s.Faults[faultIdx]
		faultIdx++
		if f.RefuseResumeOf > 0 && f.RefuseResumeOf <= len(ups) {
			refuseID = ups[f.RefuseResumeOf-1].up.ID
			resumeRefuse.Store(true)
		}
		if f.CutResumeOf > 0 && f.CutResumeOf <= len(ups) {
			cutID = ups[f.CutResumeOf-1].up.ID
			resumeCut.Store(true)
		}
		if f.ResumeConflicts > 0 {
			for _, us := range w.B.Ups() {
				w.B.Lock()
				us.ResumeConflicts = f.ResumeConflicts
				w.B.Unlock()
			}
		}
		if f.DownConflicts > 0 {
			for _, ds := range w.B.Downs() {
				w.B.Lock()
				ds.ResumeConflicts = f.DownConflicts
				w.B.Unlock()
			}
		}
		w.Net.FailNextDials(f.DialErrors)
		w.Net.SetDialDelay(time.Duration(f.DialDelayMs) * time.Millisecond)
		tr := f.Trigger
		tr.Link = w.Net.Current().ID
		w.Net.Arm(tr)
		for _, nt := range f.NextLink {
			nt.Link = w.Net.Current().ID + 1
			w.Net.Arm(nt)
		}
		return true
	}
	hasFault := arm()

	// phase A traffic
	write := func(u *upRT, n int, gap time.Duration) {
		wid := int(u.writers.Add(1))
		for k := 0; k < n; k++ {
			if u.closing.Load() {
				return
			}
			cn := k + 1
			ctx, c := context.WithTimeout(bg, callT)
			err := u.out.Rec.Write(ctx, u.up, wid, id, []int{cn}, []int{40})
			c()
			if err != nil && errors.Is(err, iscperrors.ErrStreamClosed) {
				u.streamClosed.Store(true)
				return
			}
			if gap > 0 {
				time.Sleep(gap)
			}
		}
	}
	var wg, earlyWG sync.WaitGroup
	for _, u := range ups {
		wg.Add(1)
		go func(u *upRT) {
			defer wg.Done()
			write(u, u.out.Spec.Writes, 10*time.Millisecond)
			if u.out.Spec.CloseEarly {
				// not part of wg: the withheld acks Close waits for are released after wg.Wait() below
				u.closing.Store(true)
				earlyWG.Add(1)
				go func() {
					defer earlyWG.Done()
					t0 := time.Now()
					ctx, c := context.WithTimeout(bg, 10*time.Minute)
					if err := u.up.Close(ctx); err != nil {
						u.out.CloseErr = err.Error()
					}
					c()
					u.out.EarlyCloseSecs = time.Since(t0).Seconds()
					u.out.ClosedEarly = true
				}()
			}
		}(u)
	}
	// downstream traffic: the broker pushes a chunk every 10 ms to every downstream on the current link
	stopPush := make(chan struct{})
	var pushWG sync.WaitGroup
	var pushSeq atomic.Int64
	pushWG.Add(1)
	go func() {
		defer pushWG.Done()
		for {
			select {
			case <-stopPush:
				return
			case <-time.After(10 * time.Millisecond):
			}
			lc := w.B.CurrentLink()
			if lc == nil || lc.L.Dead() {
				continue
			}
			for _, d := range downs {
				if ds := lc.Down(d.out.Alias); ds != nil && ds.ID == d.out.ID {
					n := pushSeq.Add(1)
					lc.Send(&message.DownstreamChunk{StreamIDAlias: d.out.Alias, UpstreamOrAlias: &message.UpstreamInfo{SessionID: "src-sess", SourceNodeID: "src", StreamID: broker.StreamIDFor("src", "s", 0)},
						StreamChunk: &message.StreamChunk{SequenceNumber: uint32(n), DataPointGroups: []*message.DataPointGroup{{DataIDOrAlias: &message.DataID{Name: "d", Type: "t"}, DataPoints: []*message.DataPoint{{ElapsedTime: time.Duration(n), Payload: []byte("dn")}}}}}})
				}
			}
		}
	}()
	// downstream readers (drain continuously)
	rctx, rcancel := context.WithCancel(bg)
	var readWG sync.WaitGroup
	readCount := make([]atomic.Int64, len(downs))
	for i, d := range downs {
		readWG.Add(1)
		go func(i int, d *downRT) {
			defer readWG.Done()
			for {
				chk, err := d.d.ReadDataPoints(rctx)
				if err == nil {
					d.out.Consumed = append(d.out.Consumed, chk.SequenceNumber)
				}
				if err != nil {
					if rctx.Err() == nil && errors.Is(err, iscperrors.ErrStreamClosed) {
						d.out.ReadStreamClosed = true
					}
					if rctx.Err() != nil || errors.Is(err, iscperrors.ErrStreamClosed) {
						return
					}
					continue
				}
				readCount[i].Add(1)
			}
		}(i, d)
	}

	// outage handling: wait for each fault to fire, issue the outage calls, wait for recovery, arm the next one
	var callsMu sync.Mutex
	issue := func(name string) {
		lastFault := faultIdx >= len(s.Faults) // no further fault will disturb a stream opened now
		wg.Add(1)
		go func() {
			defer wg.Done()
			ctx, c := context.WithTimeout(bg, callT)
			defer c()
			var err error
			switch name {
			case "open-up":
				var up *iscp.Upstream
				up, err = conn.OpenUpstream(ctx, "outage-open", iscp.WithUpstreamQoS(message.QoSReliable), iscp.WithUpstreamFlushPolicyImmediately())
				if err == nil {
					if lastFault {
						// the stream that was opened across the outage must be usable, not silently closed again
						time.Sleep(2 * time.Second)
						wctx, c3 := context.WithTimeout(bg, 5*time.Second)
						if werr := up.WriteDataPoints(wctx, &message.DataID{Name: "o", Type: "t"}, &message.DataPoint{ElapsedTime: 1, Payload: []byte("o")}); werr != nil && errors.Is(werr, iscperrors.ErrStreamClosed) {
							err = fmt.Errorf("the upstream opened during the outage closed itself: %v", werr)
						}
						c3()
					}
					cctx, c2 := context.WithTimeout(bg, callT)
					up.Close(cctx)
					c2()
				}
			case "open-down":
				var d *iscp.Downstream
				d, err = conn.OpenDownstream(ctx, []*message.DownstreamFilter{{SourceNodeID: "other", DataFilters: []*message.DataFilter{{Name: "#", Type: "#"}}}})
				if err == nil {
					if lastFault {
						time.Sleep(2 * time.Second)
						rctx2, c3 := context.WithTimeout(bg, 2*time.Second)
						if _, rerr := d.ReadDataPoints(rctx2); rerr != nil && errors.Is(rerr, iscperrors.ErrStreamClosed) {
							err = fmt.Errorf("the downstream opened during the outage closed itself: %v", rerr)
						}
						c3()
					}
					cctx, c2 := context.WithTimeout(bg, callT)
					d.Close(cctx)
					c2()
				}
			case "metadata":
				err = conn.SendBaseTime(ctx, &message.BaseTime{Name: "outage", BaseTime: time.Unix(1, 0).UTC()})
			case "call":
				_, err = conn.SendCall(ctx, &iscp.UpstreamCall{DestinationNodeID: "n", Name: "plain", Type: "t", Payload: []byte("x")})
			case "call-wait":
				_, err = conn.SendCallAndWaitReplayCall(ctx, &iscp.UpstreamCall{DestinationNodeID: "n", Name: "wait", Type: "t", Payload: []byte("x")})
			}
			cr := CallRes{Name: name, Returned: true}
			if err != nil {
				cr.Err = err.Error()
				cr.ConnClosedErr = errors.Is(err, iscperrors.ErrConnectionClosed)
				cr.CtxErr = errors.Is(err, context.DeadlineExceeded) || errors.Is(err, context.Canceled)
			}
			callsMu.Lock()
			o.Calls = append(o.Calls, cr)
			callsMu.Unlock()
		}()
	}
	o.Recovered = true
	round := 0
	for hasFault {
		// keep some traffic going so that the armed position can be reached (first round: phase A is that traffic)
		if round > 0 {
			for _, u := range ups {
				wg.Add(1)
				go func(u *upRT) {
					defer wg.Done()
					write(u, 5, 50*time.Millisecond)
				}(u)
			}
		}
		round++
		// wait until the armed fault fires; if the position is never reached, disarm and stop
		fired := false
		for i := 0; i < 2000; i++ {
			dead := false
			for _, l := range w.Net.Links() {
				if l.Mode() != memnet.Healthy && l.ID == w.Net.Current().ID {
					dead = true
				}
			}
			if dead {
				fired = true
				break
			}
			time.Sleep(5 * time.Millisecond)
		}
		if !fired {
			w.Net.DisarmAll()
			o.RecoverNote = "fault position never reached"
			break
		}
		o.FaultsFired++
		faultAt := time.Now()
		for _, n := range s.OutageCalls {
			issue(n)
		}
		for _, u := range ups {
			wg.Add(1)
			go func(u *upRT) {
				defer wg.Done()
				write(u, s.DuringWrites, 20*time.Millisecond)
			}(u)
		}
		// recovery: a newer healthy link with a completed connect exchange and equal notification counts
		// a silent failure is noticed one keepalive interval plus one timeout (= 2 x PingMs) after it happened; a history
		// holds up to three of them (the fault, a second one on the retry's link, a cut resume)
		recoverT := recoverT + 6*time.Duration(s.PingMs)*time.Millisecond
		deadline := time.Now().Add(recoverT)
		ok := false
		for time.Now().Before(deadline) {
			cur := w.Net.Current()
			lc := w.B.CurrentLink()
			if cur != nil && cur.Mode() == memnet.Healthy && !cur.Dead() && lc != nil && lc.Connected() && disc.Load() == recon.Load() && disc.Load() > 0 {
				ok = true
				break
			}
			time.Sleep(50 * time.Millisecond)
		}
		if !ok {
			o.Recovered = false
			o.RecoverNote = fmt.Sprintf("no recovery within %v after fault %d (disconnected=%d reconnected=%d dials=%d)", recoverT, o.FaultsFired, disc.Load(), recon.Load(), w.Net.Dials())
			break
		}
		o.RecoverySecs = append(o.RecoverySecs, time.Since(faultAt).Seconds())
		// give resumes time to finish (retry back-off is capped at 7.5 s; a blocking logger holds up every step it is called at)
		time.Sleep(15*time.Second + slowLogSlack)
		w.Net.FailNextDials(0)
		w.Net.SetDialDelay(0)
		hasFault = arm()
	}
	wg.Wait()
	w.Net.DisarmAll()
	resumeRefuse.Store(false)
	resumeCut.Store(false)
	// cooperative from here on: release withheld acks on the current links
	ackAll.Store(true)
	mu.Lock()
	ha := heldAcks
	heldAcks = nil
	mu.Unlock()
	if lc := w.B.CurrentLink(); lc != nil {
		for _, h := range ha {
			lc.SendAck(h.us, []*message.UpstreamChunkResult{{SequenceNumber: h.seq, ResultCode: message.ResultCodeSucceeded, ResultString: "OK"}})
		}
	}
	time.Sleep(20*time.Second + slowLogSlack)
	synctest.Wait()
	earlyWG.Wait()
	// a probe waits 60 virtual seconds (100 ms ticks) plus four keepalive periods: a link that died silently after the
	// recovery (an armed second failure) is only noticed one interval plus one timeout later
	probeTicks := 600 + 40*s.PingMs/1000
	// phase B writes + probes
	for _, u := range ups {
		write(u, s.WritesB, time.Millisecond)
	}
	for _, u := range ups {
		if u.out.Spec.CloseEarly {
			continue
		}
		// probe: one write + flush must be transmitted on the current link and acknowledged (ack hook fires)
		_, _, acksBefore, _ := u.out.Rec.Snapshot()
		ctx, c := context.WithTimeout(bg, callT)
		err := u.out.Rec.Write(ctx, u.up, int(u.writers.Add(1)), id, []int{1}, []int{40})
		if err == nil {
			err = u.up.Flush(ctx)
		}
		c()
		if err != nil {
			u.out.ProbeErr = err.Error()
			if errors.Is(err, iscperrors.ErrStreamClosed) {
				u.streamClosed.Store(true)
			}
			continue
		}
		for i := 0; i < probeTicks; i++ {
			_, _, acksNow, _ := u.out.Rec.Snapshot()
			if len(acksNow) > len(acksBefore) {
				u.out.ProbeOK = true
				break
			}
			time.Sleep(100 * time.Millisecond)
		}
		if !u.out.ProbeOK {
			u.out.ProbeErr = "no ack reached the ack hook within 60 virtual seconds (plus four keepalive periods) after a write+flush on the recovered connection"
		}
	}
	for i, d := range downs {
		before := readCount[i].Load()
		for k := 0; k < probeTicks; k++ {
			if readCount[i].Load() > before {
				d.out.ProbeOK = true
				break
			}
			time.Sleep(100 * time.Millisecond)
		}
		if !d.out.ProbeOK {
			d.out.ProbeErr = "no chunk pushed by the broker was returned by ReadDataPoints within 60 virtual seconds (plus four keepalive periods) on the recovered connection"
		}
	}
	close(stopPush)
	pushWG.Wait()
	rcancel()
	readWG.Wait()
	// close everything
	for _, u := range ups {
		if u.out.Spec.CloseEarly {
			continue
		}
		ctx, c := context.WithTimeout(bg, callT)
		if err := u.up.Close(ctx); err != nil {
			u.out.CloseErr = err.Error()
		}
		c()
	}
	for _, d := range downs {
		ctx, c := context.WithTimeout(bg, callT)
		if err := d.d.Close(ctx); err != nil {
			d.out.CloseErr = err.Error()
		}
		c()
	}
	time.Sleep(time.Second)
	synctest.Wait()
	o.Disconnected = int(disc.Load())
	o.Reconnected = int(recon.Load())
	{
		ctx, c := context.WithTimeout(bg, callT)
		conn.Close(ctx)
		c()
	}
	time.Sleep(time.Second)
	synctest.Wait()
	// collect
	o.Ledger = w.B.Ledger()
	o.Links = len(w.Net.Links())
	o.DialStacks = w.Net.DialStacks
	for _, l := range w.Net.Links() {
		o.LinkInfos = append(o.LinkInfos, LinkInfo{ID: l.ID, Mode: l.Mode(), Log: l.Log(), FailedVT: l.FailedTime()})
	}
	o.Dials = w.Net.Dials()
	for _, lc := range w.B.LinkCtxs() {
		if lc.Connect != nil {
			o.ConnectTokens = append(o.ConnectTokens, lc.Connect.AccessToken())
		}
	}
	for _, e := range o.Ledger {
		if e.Link == 1 && e.Dir == memnet.C2S {
			switch e.Msg.(type) {
			case *message.Ping, *message.Pong:
			default:
				o.Trace = append(o.Trace, e.Class)
			}
		}
	}
	bups := map[uuid.UUID]*broker.UpState{}
	for _, us := range w.B.Ups() {
		bups[us.ID] = us
		o.AllUpIDs = append(o.AllUpIDs, us.ID)
	}
	w.B.Lock()
	for _, u := range ups {
		if us, ok := bups[u.out.ID]; ok {
			u.out.State = *us
			u.out.State.Chunks = append([]broker.ChunkRec(nil), us.Chunks...)
			u.out.State.AcksSent = append([]broker.AckRec(nil), us.AcksSent...)
			u.out.State.Resumes = append([]int(nil), us.Resumes...)
		}
		_, _, _, closed := u.out.Rec.Snapshot()
		for _, c := range closed {
			u.out.ClosedErrs = append(u.out.ClosedErrs, c.Err)
		}
		u.out.Resumed = u.out.Rec.Resumed
		u.out.WriteStreamClosed = u.streamClosed.Load()
	}
	w.B.Unlock()
	bdowns := map[uuid.UUID]*broker.DownState{}
	o.AllDownAlias = map[uuid.UUID]uint32{}
	for _, ds := range w.B.Downs() {
		bdowns[ds.ID] = ds
		o.AllDownAlias[ds.ID] = ds.Alias
	}
	w.B.Lock()
	for _, d := range downs {
		if ds, ok := bdowns[d.out.ID]; ok {
			d.out.State = *ds
			d.out.State.Resumes = append([]int(nil), ds.Resumes...)
		}
		d.out.Resumed = int(d.resumed.Load())
	}
	o.Notes = append(o.Notes, w.B.Errors...)
	w.B.Unlock()
	if store != nil {
		store.mu.Lock()
		o.StorageHist = append([]StorageOp(nil), store.hist...)
		store.mu.Unlock()
	}
	w.Close()
	if s.Census {
		time.Sleep(5 * time.Minute)
		synctest.Wait()
		for i, g := range vrun.BubbleCensus() {
			o.Leftover = append(o.Leftover, g.InnermostLib()+" <- "+strings.TrimPrefix(g.CreatedBy, vrun.LibPrefix))
			if i == 0 {
				o.LeftoverFirst = g.Text
			}
		}
		sort.Strings(o.Leftover)
	}
	return o
}
